"""setup: compile every harness test binary once so that the first check does not pay for the cold build."""
import os, sys
sys.path.insert(0, os.path.dirname(os.path.abspath(__file__)))
import props as P
here = os.path.dirname(os.path.dirname(os.path.abspath(__file__)))
seen = set()
ok = True
for prop, spec in sorted(P.PROPS.items()):
    key = (spec.get("kind"), spec.get("pkg") or tuple(sorted(x["pkg"] for x in spec.get("parts", []))), bool(spec.get("race")), bool(spec.get("instr")))
    if key in seen or spec.get("kind") != "harness":
        continue
    seen.add(key)
    r = P.Runner(prop, "quick", 1, "/repo", here, None)
    r.bdir = os.path.join(here, "build", "warm-" + prop)
    err = r.prepare() or r.compile()
    print("warm", prop, spec.get("pkg") or [x["pkg"] for x in spec.get("parts", [])], "FAILED: " + err if err else "ok")
    import shutil
    shutil.rmtree(r.bdir, ignore_errors=True)
    ok = ok and not err
sys.exit(0 if ok else 1)
