"""Per-property configuration and the generic runner used by ./check."""
import glob, hashlib, json, os, shutil, subprocess, sys, tempfile, time

GO = "go1.26.8"
NCPU = os.cpu_count() or 4

COMMON_ASSUME = [
    "library compiled with go1.26.8 (the baseline suite uses go1.23.5)",
    "a search, not a proof: absence of violations is established only for the cases explored",
]

POOL_ASSUME = COMMON_ASSUME + [
    "the pool is driven through a fake balancer.ClientConn that follows grpc 1.56.3's observable contract (serialised balancer callbacks, Done called once, non-nil Ctx)",
    "virtual time via testing/synctest (rapid.SyncTest); no two operations share an instant",
]

# quick/thorough: checks = rapid cases per shard, shards = processes, env = knobs for the test binary
PROPS = {
    "C13": dict(kind="harness", pkg="./mesim", test="TestC13",
                quick=dict(checks=3000, shards=4, env={"VERIF_EXH_DEPTH": "4"}, timeout=600),
                thorough=dict(checks=400000, shards=16, env={"VERIF_EXH_DEPTH": "5"}, timeout=10800),
                rule="rapid state-machine histories (1-40 ops: availability reports incl. unknown endpoints, list replacements incl. "
                     "empty/duplicate/reorder/remove/re-add, clock advances to timer boundaries +-1ns, timer firing in generated orders) over "
                     "(R,D) in {0,5,50}x{0,3,5,50,80} plus a bounded-exhaustive enumeration (exhaustive.depth ops over 3 endpoints, 25-op alphabet, 7 configs) "
                     "against the Appendix B reference model; non-trivial = history with >=3 initial endpoints in which the current endpoint was removed or "
                     "moved by a list replacement and >=1 timer fired; distinct = FNV-1a of the canonical JSON of the case (exhaustive histories are sampled 1/64 into this count)",
                assume=COMMON_ASSUME + ["package clock replaced through the package's own timeNow/timeAfterFunc test variables; timer callbacks run synchronously on the harness goroutine"]),
    "C14": dict(kind="harness", pkg="./mesim", test="TestC14",
                quick=dict(checks=3000, shards=4, env={"VERIF_EXH_DEPTH": "4"}, timeout=600),
                thorough=dict(checks=400000, shards=16, env={"VERIF_EXH_DEPTH": "5"}, timeout=10800),
                rule="same generator and enumerator as C13, oracles: recovering current endpoint kept while no higher-priority endpoint is available, "
                     "no move away from a usable current endpoint inside the call that made a better one available (D>0), never from an available endpoint to a lower-priority one "
                     "(checked after every op and after every single timer callback), convergence to the top available endpoint after quiescence; "
                     "non-trivial = D>0, >=1 op executed while a delayed switch or another timer was pending/in flight, >=1 timer fired",
                assume=COMMON_ASSUME + ["package clock replaced through the package's own timeNow/timeAfterFunc test variables; due timers may stay in flight across later ops (Stop() then reports false)"]),
}

CONC_RULE = (" A second generator (engine conc) runs concurrent workloads on sources instrumented with yield points in front of every mutex/atomic operation (schedule perturbed by "
             "Gosched/microsecond sleeps from a seeded generator): one goroutine issues the serialized balancer callbacks (state flaps, resolver updates, bringing new connections up, completing refreshes), "
             "2-8 goroutines issue picks and completions on current and stale pickers; thread-safe invariants are observed at the fake ClientConn.")


SCHED_RULE = (" A third generator runs small concurrent programs under a cooperative scheduler that owns the interleaving at the injected yield points (tasks park at every mutex/atomic "
              "operation; exactly one task runs at a time, chosen by a generated schedule vector; blocking inside the runtime is observed from goroutine wait states; no runnable task for 300 ms = deadlock): "
              "the schedule vector shrinks and replays.")


def _pool(test, rule, nontriv, quick=12000, thorough=400000, extra_assume=None, conc=None, sched=None):
    d = dict(kind="harness", pkg="./poolsim", test=test,
                quick=dict(checks=quick, shards=4, timeout=600),
                thorough=dict(checks=thorough, shards=16, timeout=10800),
                rule="rapid-generated pool histories (resolver updates, state reports for pool/replacement/removed/unknown conns, picks on current and stale pickers "
                     "with plain/BIND/BOUND/UNBIND methods and keys from a 4-key alphabet, completions with 6 outcomes, clock advances incl. detector-window boundaries +-1ns, "
                     "factory failures; steering composites expand to primitive ops) executed against the real balancer behind a fake ClientConn in a synctest bubble and "
                     "compared step by step with the Appendix A reference model. " + rule + " Non-trivial = " + nontriv +
                     "; distinct = FNV-1a of the canonical JSON of the case." + (CONC_RULE + " " + conc[1] if conc else ""),
                assume=POOL_ASSUME + (extra_assume or []) + (["concurrent part: schedules are perturbed, not owned - preemption happens only at the injected yield points and wherever the Go scheduler decides; a time budget that runs out is not a failure"] if conc else []))
    if sched and not conc:
        # scheduled programs only (no perturbed workload of its own)
        d["instr"] = True
        d["parts"] = [dict(pkg="./poolsim", test=test, replay_key="ops"), dict(pkg="./poolsim", test=test, replay_key="ops"), dict(pkg="./poolsim", test=test, replay_key="ops"),
                      dict(pkg="./conc", test=sched, replay_key="schedule", quick_checks=250, thorough_checks=15000)]
        d["quick"]["shards"] = 4
        d["thorough"]["shards"] = 16
        d["rule"] += SCHED_RULE
    if conc:
        d["instr"] = True
        d["parts"] = [dict(pkg="./poolsim", test=test, replay_key="ops"), dict(pkg="./poolsim", test=test, replay_key="ops"),
                      dict(pkg="./conc", test=conc[0], replay_key="goroutines", quick_checks=conc[2], thorough_checks=conc[3])]
        d["quick"]["shards"] = 6
        d["thorough"]["shards"] = 15
        if len(conc) > 4:
            d["parts"].append(dict(pkg="./conc", test=conc[4], replay_key="schedule", quick_checks=250, thorough_checks=15000))
            d["quick"]["shards"] = 8
            d["thorough"]["shards"] = 16
            d["rule"] += SCHED_RULE
    return d


CONC_RULE_PLACEHOLDER = (" A second generator (engine conc) runs concurrent workloads on sources instrumented with yield points in front of every mutex/atomic operation (schedule perturbed by "
             "Gosched/microsecond sleeps from a seeded generator): one goroutine issues the serialized balancer callbacks (state flaps, resolver updates, bringing new connections up, completing refreshes), "
             "2-8 goroutines issue picks and completions on current and stale pickers; thread-safe invariants are observed at the fake ClientConn.")

PROPS.update({
    "C10": dict(kind="harness", pkg="./conc", test="TestC10", race=True, instr=True,
                quick=dict(checks=250, shards=4, timeout=900, env={"GORACE": "halt_on_error=0 history_size=3"}),
                thorough=dict(checks=10000, shards=12, timeout=10800, env={"GORACE": "halt_on_error=0 history_size=3"}),
                rule="generated workload programs compiled with -race on instrumented sources (yield points in front of every mutex/atomic operation of the five library files; the yield hook perturbs the schedule "
                     "with Gosched / microsecond sleeps from a seeded generator). W1 pool: one goroutine issues the serialized balancer callbacks (state flaps, resolver updates, resolver errors, bringing new "
                     "and replacement connections up), 2-8 goroutines run pick->complete loops on current and stale pickers with plain/BIND/BOUND/UNBIND methods, already expired deadlines and a 1 ms detection window "
                     "so that refreshes and swaps happen under load, all feature flags drawn. W2 multiendpoint: Current / availability reports / SetEndpoints from several goroutines with real timers "
                     "(recovery timeout and switching delay in {0, 50us, 1ms}). W3 GCPMultiEndpoint over in-memory servers: RPCs on several names || UpdateMultiEndpoints || outages || GCPConfig(). "
                     "Oracle: the Go race detector and the runtime's concurrent-map check; every report is a violation (no open findings). Non-trivial = a program in which picks overlapped a running balancer "
                     "callback, or a swap / growth happened under load, or (W2/W3) >=2 goroutines ran; distinct = FNV-1a of the canonical JSON of the program.",
                assume=COMMON_ASSUME + ["the race detector only sees accesses that were executed: data-race freedom is sampled, not shown",
                                        "balancer callbacks are serialized by the workload (as gRPC does); Done is called once per pick",
                                        "inserting a call to a no-op hook in front of a statement is semantics-preserving"]),
    "C19": dict(kind="leaf", module="e2e-checksum",
                files={"leaf/e2e-checksum/codec_verif_test.go": "zz_verif_codec_test.go"},
                tests=[(".", "TestC19")],
                quick=dict(checks=3000, shards=4, timeout=900),
                thorough=dict(checks=150000, shards=16, timeout=10800, fuzz=[(".", "FuzzC19", 180)]),
                rule="descriptor-driven message filler over 20 root message types already linked into the module (structpb Value/Struct/ListValue, descriptorpb File/Descriptor/FieldOptions, "
                     "datastore Entity/Value/Key/CommitRequest/RunQueryRequest/LookupResponse/Mutation, Any, wrappers, Api, Type): field presence, scalar extremes, unknown enum numbers, nested depth <=5, "
                     "repeated 0-8 (rarely 130/300), maps, oneofs, bytes up to 70000 (rarely 2 MiB), rarely depth 9/14, well-formed unknown fields (incl. an own field 2047) appended; a case is a HISTORY of 1-6 Marshal calls on one codec "
                     "instance over up to 3 live message objects: fresh content, the unchanged object again, or the same object edited in place (mostly to an encoding of the same size). Oracle after every call: output starts FD 7F; bytes 2..5 little-endian = CRC32C of the rest "
                     "computed by a bitwise table-free reference; an independent top-level wire walk sees exactly one extra leading field followed by the payload's fields; payload length = proto.Size; "
                     "for messages without multi-entry maps the payload equals the deterministic standard encoding byte for byte; decoding the payload gives the original; decoding the whole output with the "
                     "codec and with a plain parser gives the original up to exactly one more unknown field 2047; underlying codec errors and a non-proto value pass their error through. "
                     "outputs handed out by earlier calls stay unchanged. Non-trivial = history with a non-empty encoding; distinct = FNV-1a of the history (types, standard encodings). Thorough adds native fuzzing (bytes -> Unmarshal into a drawn type -> same oracle).",
                assume=["in-package test compiled in a scratch copy of e2e-checksum (removed after the run); default go toolchain",
                        "'equal to the original' when decoding the whole output means proto.Equal after removing the one unknown field 2047 the codec adds", "a search, not a proof"]),
    "C18": dict(kind="leaf", module="spanner_prober",
                files={"leaf/spanner_prober/verif_export.go": "prober/zz_verif_export.go", "leaf/spanner_prober/prober_verif_test.go": "prober/zz_verif_test.go",
                       "leaf/spanner_prober/main_verif_test.go": "zz_verif_main_test.go"},
                tests=[("./prober", "TestC18Prober"), (".", "TestC18Flags")],
                quick=dict(checks=30000, shards=2, timeout=900),
                thorough=dict(checks=1000000, shards=16, timeout=10800, fuzz=[("./prober", "FuzzT4T7", 90), (".", "FuzzFlags", 90)]),
                rule="in-package tests compiled in a scratch copy of spanner_prober. Backoff: (base,max,retries...) with 0<=base<=max over the whole int64 range (classes: small, <1h, around 2^53 ns, "
                     "near MaxInt64, uniform), increasing retry counts up to 2^62 (huge counts only for base>0), oracle base<=b<=max and non-decreasing. GFE latency: header/trailer metadata pairs "
                     "(present/absent/empty lists, 0-4 entries from a pool of 20 well- and ill-formed entries plus random values) against a reference parser written from the statement; no panic. "
                     "Flags: project/instance/database/config strings (valid alphabet, empty, hostile strings with / .. newline unicode NUL, valid names with one hostile character spliced in), qps from "
                     "a pool incl. 0, negatives, NaN, +-Inf, denormals, 1e-10 boundary, 1000.0001 and arbitrary float64; for every accepted set: probe type parses, probe interval > 0, every derived "
                     "resource name splits on '/' into exactly the expected segments. Payload sizes 1..2^20: length and SHA-256. Non-trivial = backoff case with >=2 retry counts and base>0, "
                     "header case with >=2 entries, accepted flag set; distinct = FNV-1a of the canonical JSON of the case. Thorough adds native fuzzing of header values and flag strings.",
                assume=["library helpers compiled with the default go toolchain in a scratch copy of the module; unexported helpers reached through an in-package test and a build-tag guarded export file",
                        "backoff is checked for 0 <= base <= max (every caller passes positive constants)", "a search, not a proof"]),
    "C17": dict(kind="harness", parts=[dict(pkg="./cfg", test="TestC17", replay_key="text"), dict(pkg="./poolsim", test="TestC17Pool", replay_key="ops"),
                                       dict(pkg="./cfg", test="TestC17", replay_key="text"), dict(pkg="./poolsim", test="TestC17Pool", replay_key="ops"),
                                       dict(pkg="./gmesim", test="TestC17GME", replay_key="init", quick_checks=400, thorough_checks=20000)],
                quick=dict(checks=15000, shards=5, timeout=600),
                thorough=dict(checks=500000, shards=15, timeout=10800, fuzz=("FuzzC17", 180)),
                rule="two generators. (1) JSON texts of ApiConfig built from a drawn message by a schema-driven renderer - valid by construction (camelCase or snake_case names, numbers as "
                     "numbers / integral floats / exponents / strings, enums by name or number incl. unknown numbers, null for singular fields, arbitrary whitespace and order, zero values written or omitted) "
                     "or carrying exactly one of 28 injected faults - checked for accept/reject, equality with the expected message and a lossless round trip; every 10th valid case also goes through "
                     "NewGCPMultiEndpoint (caller's object unchanged, GCPConfig() equal, no shared sub-objects, mutations on either side invisible). (2) pool histories (profile 'cfg': fields absent/zero, "
                     "no channelPool, no methods, nil/foreign/alternative configs before and after the first accepted one) in which the effective configuration is observed behaviourally against a model that "
                     "applies the documented defaults 1/4/100 itself (initial size, growth limit, saturation threshold, method routing); after every resolver update the caller's config object is compared with a "
                     "pre-call clone and then scribbled over. Non-trivial = config with a defaulted and an explicitly set field and >=2 method entries (texts) / a later or nil config plus size- or routing-relevant "
                     "picks (histories); distinct = FNV-1a of the canonical JSON of the case. (3) GCPMultiEndpoint constructions over in-memory servers with a drawn channel-pool minSize 0-3: every pool of a reachable "
                     "endpoint opens exactly max(1,minSize) transport connections (counted at the dialer). Thorough adds native differential fuzzing of the parser against protojson.",
                assume=POOL_ASSUME + ["acceptance classes of protojson were validated against the parser on the unchanged tree (DESIGN §4 C17)",
                                      "method names listed in several entries are generated but only checked for absence of panics"]),
    "C12": dict(kind="harness", pkg="./icept", test="TestC12", instr=True,
                parts=[dict(pkg="./icept", test="TestC12", replay_key="steps"), dict(pkg="./icept", test="TestC12", replay_key="steps"), dict(pkg="./icept", test="TestC12", replay_key="steps"),
                       dict(pkg="./conc", test="TestSchedC12", replay_key="schedule", quick_checks=300, thorough_checks=15000)],
                quick=dict(checks=10000, shards=4, timeout=600),
                thorough=dict(checks=400000, shards=16, timeout=10800),
                rule="stream programs: per-creation outcomes (ok / error / blocks until the context ends), up to 14 steps distributed over a sender, a receiver and a third goroutine "
                     "(SendMsg, RecvMsg, CloseSend, Header, Trailer, Context, context cancellation or deadline, message delivery), fake underlying stream that records every call; "
                     "executed in a synctest bubble, synctest.Wait() after each step decides returned vs durably blocked. Oracle: no stream before the first SendMsg, exactly one after a success, "
                     "creating context carries the first message and the caller's values, early RecvMsg blocks until creation and is then delegated with its argument / returns the creation error / returns when the context ends, "
                     "sends reach the underlying stream unchanged and in order, post-creation methods return what the underlying stream returns, nothing panics, nothing hangs (real-time watchdog). "
                     "Unary interceptor: all 162 combinations of method/options/request kind/error kind/deadline are enumerated on every run. Non-trivial = a method issued before creation, cancellation "
                     "while a receiver waits, or a SendMsg after a failed creation; distinct = FNV-1a of the canonical JSON of the program. One shard in four runs stream programs (sender, receiver, "
                     "Header, cancellation as tasks) under the cooperative scheduler with a generated schedule vector over the yield points of the interceptor's lock/cond protocol; a receiver that is never released shows up as a deadlock.",
                assume=COMMON_ASSUME + ["gRPC's stream concurrency contract is respected by the generator (one sender goroutine for SendMsg/CloseSend, one receiver for RecvMsg)",
                                        "while a blocking stream creation holds the stream's mutex no other method is issued (mutex waits are not observable in a synctest bubble)"]),
    "C11": dict(kind="harness", pkg="./keys", test="TestC11",
                quick=dict(checks=40000, shards=2, timeout=600),
                thorough=dict(checks=400000, shards=16, timeout=10800, fuzz=("FuzzC11", 180)),  # reflect keeps every generated struct type: ~4 kB per case and process
                rule="(type, value, locator) triples: struct types built with reflect.StructOf from a drawn shape tree (depth<=3; string,int,bool,*string,[]string,[]int,"
                     "struct,*struct,[]struct,[]*struct; colliding field names), values with nil pointers / nil and empty slices / nil list elements at every depth, locators = "
                     "a valid path of the type, mutated in 35% of the cases (case, extra/dropped/doubled/empty segments, unicode); 10% exotic Go values (embedded nil pointers, "
                     "unexported fields, interfaces, maps, **T, arrays, funcs, chans, generated protobuf messages incl. typed nil) x 50 odd locators, that grid is also enumerated "
                     "completely on every run. Oracle: no panic; on the proto-like domain exact agreement (keys in order, error<=>error) with an independent reference traversal; "
                     "elsewhere soundness (every returned key is a string reachable in the value). Non-trivial = the path crosses a repeated field or pointer and the value has a nil "
                     "or empty element, or the case is exotic; distinct = FNV-1a of the canonical JSON of the case. Thorough adds native coverage-guided fuzzing of the same property (rapid.MakeFuzz).",
                assume=COMMON_ASSUME + ["segment -> field name uses the documented convention (first letter upper-cased); locators with separators or caseless letters are totality/soundness only",
                                        "exact agreement is demanded only on the proto-like domain (structs, single pointers, slices, scalars)"]),
    "C01": _pool("TestC01", "Profile 'affinity'. Oracle: a BOUND/UNBIND pick for a bound key whose home channel is READY is placed on the home channel's current connection (any picker) and the most recent picker does place it; home not READY and fallback off => ErrNoSubConnAvailable; bindings change only on successful BIND (unbound keys only) and successful UNBIND.",
                 "the history has a keyed pick for a bound key with READY home and at least one of {home channel swapped by a refresh, stale picker, saturated home, BIND of an already bound key, UNBIND, home not READY}",
                 extra_assume=["keys whose home channel was dead (Shutdown) while bound are don't-care until unbound; the empty key is no key"], sched="TestSchedC01"),
    "C02": _pool("TestC02", "Profile 'load'. Oracle: every unkeyed/unknown-key placement is on a channel of the picker's READY snapshot whose model in-flight count (placements minus completions, never read from the library) is minimal; end-of-case drain: after completing every call, n picks land on n distinct READY channels.",
                 "a least-loaded choice among >=2 snapshot channels plus a completion with a non-ok outcome, after a swap, or on a channel that left READY",
                 conc=("TestConcC02", "Invariant: after the workload is quiescent (every completion ran) n picks land on n distinct channels - every count returned to zero.", 300, 12000, "TestSchedC02")),
    "C03": _pool("TestC03", "Profile 'size' ((min,max,watermark) from {0..6}x{0..6}x{0..4} incl. min>max, strict and lenient factories, pool emptied by shutdowns). Oracle: exactly max(1,min) conns after the first non-empty update; growth only by a saturated pick below max with no Idle/Connecting channel, that pick is told to wait; placement at max; size <= max for min<=max; RemoveSubConn only for the old conn of a completed refresh.",
                 "a growth event, a saturated pick at maxSize, or a re-created pool",
                 conc=("TestConcC03", "Invariant: the number of pool channels ever created never exceeds maxSize (min<=max) although saturated picks race on stale and current pickers while new connections are being brought up; RemoveSubConn only inside the take-over of a replacement.", 400, 14000, "TestSchedC03")),
    "C04": _pool("TestC04", "Profile 'states' (hostile state reports for pool/replacement/removed/unknown conns, repeats, shutdowns, refreshes). Oracle: once anything was published the last published state equals the aggregate over pool conns; READY-set change => publication; picker fails fast with ErrTransientFailure iff published with TRANSIENT_FAILURE; reports for non-pool conns publish nothing.",
                 ">=2 distinct published states, >=1 report for a non-pool conn, and a swap or a shutdown"),
    "C07": _pool("TestC07", "Profile 'detector' (unresponsive_calls 0-4, unresponsive_detection_ms in {0,1,7,100,60000,2^31,2^32-1}). Oracle: reference detector per channel (exact big-integer window ms*2^k); refresh attempt during a completion expected <=> observed; failed creation does not disable later refreshes; swap removes the old conn exactly once; detection disabled => never.",
                 "a refresh expected-and-observed plus one of {boundary hit exactly / +-1ns, backoff k>=1, server-side deadline, deadline call started before the last response, factory refusal, suppressed by refresh in progress}",
                 conc=("TestConcC07", "Invariant: concurrent qualifying completions on one channel create exactly one replacement while its refresh is in progress; no connection is removed twice.", 120, 6000, "TestSchedC07")),
    "C08": _pool("TestC08", "Profile 'fallback' (fallback_to_ready on). Oracle: keyed pick with home not READY on the most recent picker is placed on a READY channel whenever one exists (also saturated), the stand-in is reused while it stays READY and home stays not READY (follows a refresh of the stand-in), home READY again => home; bindings unchanged by fallback.",
                 ">=1 reuse of a stand-in plus one of {saturated READY set, stand-in refreshed, stand-in failed, home recovered}",
                 conc=("TestConcC05", "Invariant: no panic (shared workload).", 150, 6000, "TestSchedC08")),
    "C09": _pool("TestC09", "Profile 'rr' (ROUND_ROBIN, 1-6 channels, BIND picks with deadlines/cancellation, blocked picks observed with synctest.Wait). Oracle: assignments follow creation order cyclically while the composition is unchanged (first after a change re-synchronises); a pick is handed its channel only when READY or after its context ended; blocked picks are released by the READY report / swap / context end within one 100 ms poll period of virtual time; other calls obey the load rule.",
                 ">=4 in-order BIND assignments or a blocked BIND released by READY or by context end",
                 conc=("TestConcC09", "Invariant: n*k round-robin BIND picks issued from several goroutines over n READY channels put exactly k on each channel.", 400, 14000, "TestSchedC09")),
    "C05": _pool("TestC05", "Profile 'hostile' (all feature flags random; nil / typed-nil / empty / non-struct request messages; locators that do not resolve, resolve to an empty list or to a non-string; picks and completions without the interceptor context; stale pickers with every conn down; failing and strict factories; empty address lists; nil / foreign / alternative configs; reports for unknown, removed and replacement conns; pool emptied by shutdowns). Oracle: recover() around every library entry - any panic is a violation; a request whose key cannot be extracted is never placed.",
                 "the history contains at least one hostile element (see the per-class labels)",
                 conc=("TestConcC05", "Invariant: no pick or completion panics under concurrency.", 300, 12000)),
    "C06": _pool("TestC06", "Profile 'hostile' plus a lock probe after every op (a state report for a never-seen conn must return: the balancer lock is free). Oracle: a real-time watchdog outside the bubble (3 s; normal latency is microseconds) catches any call that does not return; a pick that is not a round-robin BIND must not block (synctest.Wait shows it durably blocked); a blocked round-robin BIND returns once its channel is READY or within one 100 ms poll period of virtual time after its context ended, and other calls keep working meanwhile.",
                 "the history reaches one of the named states: factory refusing a resolver update (empty list with the strict factory / armed failure), resolver update on an emptied pool, saturated pool with fallback, calls issued while a round-robin BIND is blocked",
                 conc=("TestConcC06", "Invariant: every workload finishes within 20 s (normal: milliseconds): no lock-order deadlock between completions, picks and balancer callbacks, no leaked lock.", 300, 12000, "TestSchedC06")),
    "C20": _pool("TestC20", "Profile 'addresses' (>=3 address lists, resolver errors, growth, refreshes at every stage). Oracle: after every update every alive pool conn has the latest list and was asked to reconnect; growth and replacement conns are created with the latest list; a replacement takes over with the latest list; a resolver error causes no ClientConn call.",
                 "a resolver update while a replacement exists followed by its swap, or growth",
                 conc=("TestConcC20", "Invariant: after a workload with many resolver updates racing with refreshes, every connection that belongs to the pool (incl. replacements that took over) uses the latest resolved address list.", 200, 6000, "TestSchedC20")),
})

def _gme(test, rule, nontriv):
    return dict(kind="harness", pkg="./gmesim", test=test, instr=True,
                parts=[dict(pkg="./gmesim", test=test, replay_key="ops"), dict(pkg="./gmesim", test=test, replay_key="ops"), dict(pkg="./gmesim", test=test, replay_key="ops"),
                       dict(pkg="./conc", test=test.replace("Test", "TestConc"), replay_key="goroutines", quick_checks=150, thorough_checks=7000)],
                quick=dict(checks=350, shards=4, timeout=900),
                thorough=dict(checks=14000, shards=12, timeout=10800),
                rule="rapid-generated histories over a real GCPMultiEndpoint and six in-memory (bufconn) gRPC servers (two of them have a comma in their address): option sets with 1-3 named MultiEndpoints over shared endpoints "
                     "(add/remove/rename MultiEndpoints, add/remove/reorder endpoints, change default), endpoint outages and recoveries (dialer refuses + live connections closed), RPCs (unary and stream) "
                     "with no / known / unknown MultiEndpoint name; a recording interceptor appended in DialFunc tells which pool every RPC entered. " + rule +
                     " Non-trivial = " + nontriv + "; distinct = FNV-1a of the canonical JSON of the case. One shard in four runs concurrent workloads instead (engine conc, instrumented sources with "
                     "schedule-perturbing yield points): RPCs on several names || UpdateMultiEndpoints || outages || GCPConfig(); invariant: no RPC or update panics, the workload finishes.",
                assume=COMMON_ASSUME + ["real grpc-go 1.56.3 and real time; 'bounded time' is fixed at 10 s for routing to follow (measured: milliseconds) and 5 s for goroutines to exit (measured: 50 ms)",
                                        "when no endpoint of a MultiEndpoint is up only membership of the entered pool is demanded (stickiness is decided deterministically by C13)",
                                        "recovery timeout and switching delay are 0 in these histories"])


PROPS.update({
    "C15": _gme("TestC15", "Oracle: after every update / outage / recovery the pool entered by every context equals the top up endpoint of its (default) MultiEndpoint within the bound; after a successful update exactly one "
                "dialed connection per mentioned endpoint is not Shutdown, every connection of an unmentioned endpoint is Shutdown, the number of monitor goroutines above the per-case baseline equals the number of open pools, "
                "kept endpoints were not dialed again, and MultiEndpoints whose top up endpoint's pool was kept and READY route correctly immediately on return.",
                ">=2 MultiEndpoints, an update that keeps a pool and one that removes a pool, and an outage that moves routing"),
    "C16": _gme("TestC16", "Additionally invalid option sets (default without options, empty endpoint list on an existing / new MultiEndpoint, nil options, dial failure at the n-th dial) at construction and as updates. "
                "Oracle: invalid options are rejected with an error; after a rejected update routing equals the unchanged model, no previously open pool is Shutdown, no pool dialed by the rejected call stays open; "
                "no RPC panics or enters a closed pool; after Close every connection ever returned by DialFunc is Shutdown and the goroutine count returns to the pre-construction baseline; a failed construction leaves "
                "no open connection and no goroutine.",
                "a rejected update applied to an object with >=2 pools followed by Close, or a failed construction with a dial failure after successful dials"),
})


# C05 also runs the stream/unary interceptor programs of C12 under its own oracle (panics only).
PROPS["C05"]["parts"].append(dict(pkg="./icept", test="TestC05Stream", replay_key="steps", quick_checks=4000, thorough_checks=150000))
PROPS["C05"]["quick"]["shards"] = 8
PROPS["C05"]["thorough"]["shards"] = 16
PROPS["C05"]["rule"] += (" A further part runs the stream and unary interceptor programs of C12 (the interceptors are calls made by the application) with the oracle reduced to 'no method panics';"
                         " any other failure there belongs to C12 and ends the case.")

# Additions made after the mutation and defect-hunt rounds (what the generators and oracles cover beyond the text above).
RULE_ADDENDA = {
    "C01": "Also: UNBIND calls of a not yet bound key in flight while its BIND completes (unbindrace); completions of kind 'pick discarded by gRPC' (Done(DoneInfo{}) with nothing sent or received: no effect expected - open known finding discarded-pick-treated-as-completion); scheduled program sched-bindswap (BIND completion vs take-over, then two BOUND calls must land on the replacement). Round 5: key pairs that collide under common string hashes (hashpair); request types of two packages that print alike (message kinds 6, 7); BIND replies whose repeated message field holds a nil element (/bindsubs): nothing is bound then. Round 6: completion outcome 'error whose GRPCStatus() reports OK' (a failure); bindflow uses the bound key through the two request types that print alike.",
    "C02": "Also: watermarks 2^31-1, 2^31, 2^31+1, 2^31+3, 2^32-1; stale pickers several generations old. Round 5: scheduled program sched-spread (part TestSchedC02): overlapping plain picks through one picker on channels of equal load keep the per-channel counts within one of each other; multibind with /bindsubs in the load profile (a key bound by mistake is not spread by load).",
    "C03": "Also: huge watermarks; replacement attempts that fail first; rule A.size at the take-over of a channel that had left the pool (open known finding resurrection-after-pool-recreation-exceeds-max); rule A.done.departed (a completion on a channel that left the pool creates no connection). Round 6: resurrectgrow (a channel that came back through its replacement, then one channel reconnecting and a saturated call), refreshresp (a response during a refresh does not allow a second replacement); rule A.pick.6e (an old picker that finds its channels saturated does not grow a pool that has room); scheduled program sched-rrempty.",
    "C04": "Also: rule A.pub.4 - a change of the aggregate to or from TRANSIENT_FAILURE is published also before anything was published (all-idle pool starts connecting).",
    "C05": "Also: logging verbosity alternates per shard (every V(level) answers true in verbose shards); locators with odd underscores / empty segments; closeTail (Close, then late completions and picks on the last three pickers); contexts whose deadline is reached while they are not done; rrwrap (cursor moved to 2^16/2^31/2^32 boundaries through the hook VerifSetRRCursor). Round 5: resolver errors of seven dynamic types, sometimes two in a row; part TestC05Stream (interceptor programs, panics only). Round 6: methods whose affinity command is a number this version does not know (plain methods).",
    "C06": "Also: after a panicking pick a lock probe follows (a leaked read lock hangs it); scheduled program sched-rr (waiting round-robin BIND vs READY report vs other callbacks vs plain pick); rule A'.deadwait (a BIND must not stay blocked while every channel of the pool is READY). Round 6: rrdupspin (a channel that came back, refreshed again, then everything shuts down and BINDs arrive on old pickers).",
    "C07": "Also: ROUND_ROBIN in the detector profile with rrstraddle (a response arrives while the BIND waits for its channel); remove-probe (a plain pick started from inside RemoveSubConn must not land on the connection being removed); rule A.repl.idle (an idle replacement is asked to connect again); unresponsiveCalls up to 2^32-1; sched-bindswap. Round 5: failed completions with DoneInfo.BytesReceived set (a client-side deadline error is a deadline error all the same). Round 6: creation probe (a successful completion arrives while the library is inside NewSubConn for a refresh: a response that restarts the window) and crflow (three refreshes of one channel in a row with calls kept open on it).",
    "C08": "Also: resurrect composite (channel shut down during its refresh comes back through the replacement and must be found by the stand-in search); discarded picks (see C01). Round 5: fbtwice (two outages of one home channel, the first stand-in fails later while the second serves).",
    "C09": "Also: the model keeps the rotation as an explicit list (creation order; a channel that reported SHUTDOWN is out, one that comes back through its replacement goes to the end) - expectations stay on after shutdowns; rrdead and emptypool composites; cursor wrap points via VerifSetRRCursor (fewer than 2^63 BIND calls assumed); scheduled program sched-rr (part TestSchedC09). Round 5: rrresurrect (a channel that came back through its replacement is waited for like any other); rrlongwait (a BIND without deadline waits 59-125 s of virtual time and stays waiting).",
    "C10": "Also: the fake connections keep the address slices they are given and read them under their own lock (gRPC does); sibling balancers with other locators are built, used and closed while the workload runs; GCPMultiEndpoint updates whose dial fails after other pools were dialed; Close() while updaters are at work; perturbation level 3 (rare millisecond stalls). Round 5: deaths (every connection reports SHUTDOWN, the pool is re-created, BINDs on stale pickers meanwhile); sharedList (one endpoint list with a duplicate handed to two MultiEndpoints and read by a third goroutine). Round 6: appClosesPoolsFirst (the application closes every pool connection itself, then the object: every pool's Close() fails).",
    "C11": "Also: interface-holding-pointer (the protobuf oneof shape), interface-holding-struct, slice-of-interface and pointer-to-pointer kinds in the exact-oracle domain; real structpb values; embedding 3-7 levels deep; odd field names; on the soundness-only domain every returned key must be stored in a field whose name matches the last path segment. Round 5: twin-type oracles - what extraction returns depends on the value and the locator only: scripted nil-first orders over two identical types, and generated cases in which another value of the type is extracted first and the result is compared with that for a copy built from fresh struct types. Round 6: a name promoted from two embedded structs of the same depth names no field; Names slices that are windows into one backing array; the reference traversal runs before the call and the message (slices up to their capacity) must be unchanged afterwards; self-referencing message with locators of up to 2 million segments.",
    "C12": "Also: the fake stream's n-th SendMsg can block until the underlying RecvMsg is called; nested=3 (a side call on a derived context while the outer unary call is in its invoker). Round 5: the caller's context carries a MultiEndpoint name (NewMEContext) that invoker, streamer and Context() must still see. Round 6: after the program a unary call goes through the interceptor; the context the stream was created with must still carry the stream's first message.",
    "C13": "Also: lists naming an endpoint twice are modelled exactly (first occurrence); negative recovery timeout / switching delay (= none); construction with an empty list; endpoint names with separators; 300-endpoint universes; in-place edited caller slices. Round 5: editOptions (the caller re-uses its options object right after the construction). Round 6: re-split lists (\"a,b\",\"c\" <-> \"a\",\"b,c\"), an endpoint added while the current one is serving, nil options.",
    "C14": "Also: duplicates exact, negative durations, in-flight timers (a fired timer whose callback runs late). Round 5: editOptions as in C13. Round 6: lists of 13-40 endpoints with reports for members; manydrops (3-130 delayed switches in a row overtaken by a reorder, then one that must happen).",
    "C15": "Also: construction without DialFunc and through the deprecated constructor (reduced scenario); caller dial options incl. a default service config; MultiEndpoints named like endpoint addresses, removed names kept among the call contexts; duplicates exact; RunStaleMonitor (verbose shards: the monitor of a removed pool is held at its log line until the endpoint is back and READY, then released). Round 5: contexts tagged more than once and a MultiEndpoint named with the empty string; endpoints whose addresses contain a comma; closing round after the timers of the history; upquick (a delayed switch is pending when the next update arrives); owned-schedule variant in which the updater is held with the pool state it has read. Round 6: a MultiEndpoint created by the update with a switching delay only is checked at once; retry of the same options after a dial failure. Operation extclose: the application closes the connection of one pool in mid-history (the endpoint is as good as down until an update drops it; naming it again dials a fresh pool).",
    "C16": "Also: nil options pointer (construction and update); second Close; update after Close (must be refused, nothing left behind); a pool connection closed by the application before Close; Close while updaters are at work (concurrent part). Round 5: comma endpoints (split/merge steering), closing round after the timers, upquick - as in C15. Round 6: rejected updates carry a dialer of their own that must never be used, accepted ones often none; rule close-timers (timer callbacks of the object's MultiEndpoints after Close() returned: open known finding multiendpoint-timers-outlive-close). Operation extclose: the application closes the connection of one pool in mid-history (the endpoint is as good as down until an update drops it; naming it again dials a fresh pool).",
    "C17": "Also: caller option slice with spare capacity that the caller appends to later; pools added by a later update get the min-size check; the same buffer handed to ParseConfig again; watermarks up to 2^32-1. Round 5: method names that resemble a listed name (with/without the leading slash, other case, prefix, doubled slash) are plain methods; the configuration wrapped under the policy name or in a service-config layout is malformed. Round 6: both constructors; the registered balancer builder is wrapped and records the configuration each pool is dialed with (equal to the supplied one, also with '%' in names and key paths).",
    "C18": "Also: millisecond counts that do not fit a time.Duration are malformed; base <= 0 (also negative) with retry counts up to 2^62 (every call bounded by 20 s of real time); payload cases are sequences, earlier (payload, hash) pairs are re-checked after later calls. Round 5: two flag sets in one process built from the same pieces cut at different places.",
    "C19": "Also: nil and typed-nil values of every root type; an underlying codec that returns spare capacity; dynamicpb messages (field order free); message types that declare field 2047 themselves (32-bit kinds: open known finding type-declares-field-2047). Round 5: incoming messages between Marshal calls (intact, damaged checksum or payload, truncated, garbage); outputs relayed through google.protobuf.Empty and marshalled again. Round 6: the receiver wipes its buffer after Unmarshal returned; the caller overwrites every third output after checking it.",
    "C20": "Also: the fake connections keep the slice they are given and ignore an update equal to what they hold at that moment (grpc-go 1.56.3 addrConn.updateAddrs), resolver lists are fresh copies - a balancer that writes into a slice it has handed out is seen. Round 5: reserrdown (after a resolver error and with nothing READY, calls are told to wait as before; attributed C04|C20). Round 6: address lists with entries of type GRPCLB.",
}
for _k, _v in RULE_ADDENDA.items():
    PROPS[_k]["rule"] = PROPS[_k]["rule"] + " " + _v

def rapid_seed(verif_seed, shard):
    return 1 + ((verif_seed * 2654435761 + shard * 40503) % (2 ** 62))


class Runner:
    def __init__(self, prop, tier, seed, repo, here, replay):
        self.prop, self.tier, self.seed, self.repo, self.here, self.replay = prop, tier, seed, repo, here, replay
        self.spec = PROPS[prop]
        self.bdir = os.path.join(here, "build", "%s-%s-%d" % (prop, tier if not replay else "replay", os.getpid()))
        self.t0 = time.time()

    # ---- build helpers -------------------------------------------------------------------
    def env(self, extra=None):
        e = dict(os.environ)
        e.update(GOFLAGS="-mod=mod", GOPROXY="off", GOSUMDB="off", GOTOOLCHAIN="local", GONOSUMDB="*", GONOSUMCHECK="1")
        e.update(VERIF_CORPUS=os.path.join(self.here, "corpus"), VERIF_KNOWN=os.path.join(self.here, "known_findings.json"),
                 VERIF_TIER=self.tier, VERIF_REPO=self.repo, VERIF_SEED=str(self.seed))
        if extra:
            e.update(extra)
        return e

    def prepare(self):
        shutil.rmtree(self.bdir, ignore_errors=True)
        os.makedirs(self.bdir)
        os.makedirs(os.path.join(self.here, "evidence"), exist_ok=True)
        os.makedirs(os.path.join(self.here, "replays"), exist_ok=True)
        inj = os.path.join(self.here, "inject")
        ov = {
            os.path.join(self.repo, "grpcgcp", "verif_hooks.go"): os.path.join(inj, "hooks_grpcgcp.go.txt"),
            os.path.join(self.repo, "grpcgcp", "multiendpoint", "verif_hooks.go"): os.path.join(inj, "hooks_me.go.txt"),
        }
        if self.spec.get("instr"):
            idir = os.path.join(self.bdir, "instr")
            os.makedirs(idir)
            r = subprocess.run([GO, "run", "./tools/instr", "-repo", self.repo, "-out", idir], cwd=os.path.join(self.here, "harness"),
                               env=self.env(), capture_output=True, text=True)
            if r.returncode != 0:
                print(r.stdout + r.stderr)
                return "instrumentation failed"
            ov.update(json.load(open(os.path.join(idir, "overlay.json")))["Replace"])
        self.ov = os.path.join(self.bdir, "overlay.json")
        json.dump({"Replace": ov}, open(self.ov, "w"))
        gm = open(os.path.join(self.here, "harness", "go.mod")).read().replace("=> /repo/grpcgcp", "=> %s/grpcgcp" % self.repo)
        self.modfile = os.path.join(self.bdir, "go.mod")
        open(self.modfile, "w").write(gm)
        shutil.copy(os.path.join(self.here, "harness", "go.sum"), os.path.join(self.bdir, "go.sum"))
        return None

    def cleanup(self, code):
        """binaries are always removed; logs and statistics are kept only when the run did not pass"""
        if os.environ.get("VERIF_KEEP_BUILD"):
            return
        if code == 0:
            shutil.rmtree(self.bdir, ignore_errors=True)
            return
        for f in glob.glob(os.path.join(self.bdir, "*.bin")) + glob.glob(os.path.join(self.bdir, "fuzzcache")) + glob.glob(os.path.join(self.bdir, "instr")):
            if os.path.isdir(f):
                shutil.rmtree(f, ignore_errors=True)
            else:
                os.remove(f)
        # keep at most 30 failed run directories
        # (never the directory of a run that is still going on: its name ends in the pid of its driver)
        def running(d):
            try:
                os.kill(int(d.rsplit("-", 1)[1]), 0)
                return True
            except (ValueError, OSError):
                return False
        old = sorted((d for d in glob.glob(os.path.join(self.here, "build", "C*-*-*")) if not running(d)), key=os.path.getmtime)
        for d in old[:-30]:
            shutil.rmtree(d, ignore_errors=True)

    def parts(self):
        ps = self.spec.get("parts") or [dict(pkg=self.spec["pkg"], test=self.spec["test"])]
        only = os.environ.get("VERIF_ONLY_PART")  # development aid: run only the parts whose test name contains this
        if only:
            ps = [x for x in ps if only in x["test"]] or ps
        return ps

    def compile(self):
        self.bins = {}
        for part in self.parts():
            pkg = part["pkg"]
            if pkg in self.bins:
                continue
            out = os.path.join(self.bdir, "t_%s.bin" % pkg.strip("./").replace("/", "_"))
            cmd = [GO, "test", "-c", "-tags", "verif", "-overlay", self.ov, "-modfile", self.modfile, "-vet=off", "-o", out]
            if self.spec.get("race") or part.get("race"):
                cmd.append("-race")
            cmd.append(pkg)
            r = subprocess.run(cmd, cwd=os.path.join(self.here, "harness"), env=self.env(), capture_output=True, text=True)
            if r.returncode != 0 or not os.path.exists(out):
                sys.stdout.write(r.stdout + r.stderr)
                return "build failed"
            self.bins[pkg] = out
        self.bin = self.bins[self.parts()[0]["pkg"]]
        return None

    # ---- running ---------------------------------------------------------------------------
    def shard_cmd(self, i, t):
        parts = self.parts()
        part = parts[i % len(parts)]
        if self.replay:
            # a replay file names the part it belongs to through its shape; try the matching part
            part = self.replay_part()
        checks = part.get(self.tier + "_checks", t["checks"])
        cmd = [self.bins[part["pkg"]], "-test.run", "^%s$" % part["test"], "-test.timeout", "%ds" % t["timeout"], "-test.v",
               "-rapid.checks", str(checks), "-rapid.seed", str(rapid_seed(self.seed, i)), "-rapid.nofailfile"]
        if "steps" in t:
            cmd += ["-rapid.steps", str(t["steps"])]
        return cmd

    def replay_part(self):
        parts = self.parts()
        if len(parts) == 1:
            return parts[0]
        try:
            d = json.load(open(self.replay))
        except Exception:
            return parts[0]
        for part in parts:
            if part.get("replay_key") and part["replay_key"] in d:
                return part
        return parts[0]

    # ---- leaf modules (package main / unexported helpers): scratch copy outside /repo and /verif -------------
    def run_leaf(self):
        import re as _re
        t = dict(self.spec[self.tier])
        shutil.rmtree(self.bdir, ignore_errors=True)
        os.makedirs(self.bdir)
        os.makedirs(os.path.join(self.here, "evidence"), exist_ok=True)
        os.makedirs(os.path.join(self.here, "replays"), exist_ok=True)
        mod = self.spec["module"]
        src = os.path.join(self.repo, mod)
        scratch = tempfile.mkdtemp(prefix="verif_leaf_")
        try:
            for root, dirs, files in os.walk(src):
                rel = os.path.relpath(root, src)
                for f in files:
                    if f.endswith((".go", ".mod", ".sum", ".json", ".proto")) and not f.endswith("_test.go"):
                        os.makedirs(os.path.join(scratch, rel), exist_ok=True)
                        shutil.copy(os.path.join(root, f), os.path.join(scratch, rel, f))
            gm = open(os.path.join(scratch, "go.mod")).read()
            modpath = _re.search(r"^module\s+(\S+)", gm, _re.M).group(1)
            gm += "\nrequire pgregory.net/rapid v1.3.0\n"
            open(os.path.join(scratch, "go.mod"), "w").write(gm)
            hs = [l for l in open(os.path.join(self.here, "harness", "go.sum")) if l.startswith("pgregory.net/rapid ")]
            open(os.path.join(scratch, "go.sum"), "a").writelines(hs)
            os.makedirs(os.path.join(scratch, "verifhx"))
            shutil.copy(os.path.join(self.here, "harness", "hx", "hx.go"), os.path.join(scratch, "verifhx", "hx.go"))
            for srcf, dst in self.spec["files"].items():
                txt = open(os.path.join(self.here, srcf)).read().replace('"VERIFHX_IMPORT"', 'hx "%s/verifhx"' % modpath)
                os.makedirs(os.path.dirname(os.path.join(scratch, dst)) or scratch, exist_ok=True)
                open(os.path.join(scratch, dst), "w").write(txt)
            env = self.env(t.get("env"))
            env["GOFLAGS"] = "-mod=mod"
            bins = {}
            for pkg, test in self.spec["tests"]:
                if pkg in bins:
                    continue
                out = os.path.join(self.bdir, "t_%s.bin" % (pkg.strip("./").replace("/", "_") or "root"))
                r = subprocess.run(["go", "test", "-c", "-tags", "verif", "-vet=off", "-o", out, pkg], cwd=scratch, env=env, capture_output=True, text=True)
                if r.returncode != 0 or not os.path.exists(out):
                    sys.stdout.write(r.stdout + r.stderr)
                    print("INCONCLUSIVE property=%s: build failed (tree %s)" % (self.prop, self.repo))
                    return 2
                bins[pkg] = out
            shards = t.get("shards", 1)
            tests = self.spec["tests"]
            if self.replay:
                shards = len(tests)
            procs, results = [], {}
            for i in range(shards):
                pkg, test = tests[i % len(tests)]
                e = dict(env)
                e.update(VERIF_STATS=os.path.join(self.bdir, "stats.%d.json" % i), VERIF_REPLAY_OUT=os.path.join(self.bdir, "replay.%d.json" % i), VERIF_SHARD=str(i), VERIF_SHARDS=str(shards))
                if self.replay:
                    e["VERIF_REPLAY_IN"] = os.path.abspath(self.replay)
                cmd = [bins[pkg], "-test.run", "^%s$" % test, "-test.timeout", "%ds" % t["timeout"], "-test.v", "-rapid.checks", str(t["checks"]),
                       "-rapid.seed", str(rapid_seed(self.seed, i)), "-rapid.nofailfile"]
                log = open(os.path.join(self.bdir, "log.%d.txt" % i), "w")
                procs.append((i, subprocess.Popen(cmd, cwd=self.bdir, env=e, stdout=log, stderr=subprocess.STDOUT), log))
            for i, p, log in procs:
                try:
                    rc = p.wait(timeout=t["timeout"] + 60)
                except subprocess.TimeoutExpired:
                    p.kill()
                    rc = -999
                log.close()
                results[i] = rc
            self.fuzz_execs = None
            if t.get("fuzz") and not self.replay and all(rc == 0 for rc in results.values()):
                total = 0
                for pkg, name, secs in t["fuzz"]:
                    i = len(results)
                    e = dict(env)
                    e.update(VERIF_STATS=os.path.join(self.bdir, "stats.%d.json" % i), VERIF_REPLAY_OUT=os.path.join(self.bdir, "replay.%d.json" % i))
                    log = open(os.path.join(self.bdir, "log.%d.txt" % i), "w")
                    cmd = [bins[pkg], "-test.run", "^$", "-test.fuzz", "^%s$" % name, "-test.fuzztime", "%ds" % secs, "-test.fuzzcachedir", os.path.join(self.bdir, "fuzzcache"),
                           "-test.parallel", str(NCPU)]
                    try:
                        rc = subprocess.run(cmd, cwd=self.bdir, env=e, stdout=log, stderr=subprocess.STDOUT, timeout=secs + 300).returncode
                    except subprocess.TimeoutExpired:
                        rc = 0
                    log.close()
                    m = _re.findall(r"execs: (\d+)", open(os.path.join(self.bdir, "log.%d.txt" % i), errors="replace").read())
                    total += int(m[-1]) if m else 0
                    results[i] = rc
                self.fuzz_execs = total
            return self.conclude(results, t)
        finally:
            shutil.rmtree(scratch, ignore_errors=True)

    def run(self):
        if self.spec.get("kind") == "leaf":
            return self.run_leaf()
        err = self.prepare() or self.compile()
        if err:
            print("INCONCLUSIVE property=%s: %s (tree %s)" % (self.prop, err, self.repo))
            return 2
        t = dict(self.spec[self.tier])
        if self.replay:
            t = dict(t, shards=1, checks=1)
        shards = t.get("shards", 1)
        procs = []
        for i in range(shards):
            env = self.env(t.get("env"))
            env.update(VERIF_STATS=os.path.join(self.bdir, "stats.%d.json" % i), VERIF_REPLAY_OUT=os.path.join(self.bdir, "replay.%d.json" % i),
                       VERIF_SHARD=str(i), VERIF_SHARDS=str(shards), VERIF_BDIR=self.bdir,
                       VERIF_VERBOSE=str((i + i // max(1, len(self.parts())) + self.seed) % 2))
            if self.replay:
                env["VERIF_REPLAY_IN"] = os.path.abspath(self.replay)
            if "GORACE" in env and (self.spec.get("race") or any(p.get("race") for p in self.parts())):
                rl = os.path.join(self.bdir, "race.%d" % i)
                env["GORACE"] += " log_path=" + rl
                env["VERIF_RACE_LOG"] = rl
            log = open(os.path.join(self.bdir, "log.%d.txt" % i), "w")
            procs.append((i, subprocess.Popen(self.shard_cmd(i, t), cwd=self.bdir, env=env, stdout=log, stderr=subprocess.STDOUT), log))
        deadline = time.time() + t["timeout"] + 60
        results = {}
        for i, p, log in procs:
            try:
                rc = p.wait(timeout=max(1, deadline - time.time()))
            except subprocess.TimeoutExpired:
                p.kill()
                rc = -999
            log.close()
            results[i] = rc
        if t.get("fuzz") and not self.replay and all(rc == 0 for rc in results.values()):
            name, secs = t["fuzz"]
            env = self.env(t.get("env"))
            i = shards
            env.update(VERIF_STATS=os.path.join(self.bdir, "stats.%d.json" % i), VERIF_REPLAY_OUT=os.path.join(self.bdir, "replay.%d.json" % i), VERIF_BDIR=self.bdir)
            log = open(os.path.join(self.bdir, "log.%d.txt" % i), "w")
            cmd = [self.bin, "-test.run", "^$", "-test.fuzz", "^%s$" % name, "-test.fuzztime", "%ds" % secs, "-test.fuzzcachedir", os.path.join(self.bdir, "fuzzcache"),
                   "-test.parallel", str(NCPU), "-rapid.nofailfile"]
            try:
                rc = subprocess.run(cmd, cwd=self.bdir, env=env, stdout=log, stderr=subprocess.STDOUT, timeout=secs + 300).returncode
            except subprocess.TimeoutExpired:
                rc = 0  # a fuzzing budget that runs out is never a failure
            log.close()
            text = open(os.path.join(self.bdir, "log.%d.txt" % i), errors="replace").read()
            import re as _re
            m = _re.findall(r"execs: (\d+)", text)
            self.fuzz_execs = int(m[-1]) if m else 0
            results[i] = rc
        return self.conclude(results, t)

    def conclude(self, results, t):
        known = set()
        violations = []
        inconclusive = []
        for i, rc in sorted(results.items()):
            logf = os.path.join(self.bdir, "log.%d.txt" % i)
            text = open(logf, errors="replace").read()
            for line in text.splitlines():
                s = line.strip()
                if s.startswith("KNOWN-FINDING:"):
                    known.add(s)
            if rc == 0:
                if ("OK, passed" in text) and not self.replay:
                    # rapid stops silently at the go test deadline: compare the count
                    pass
                continue
            rp = os.path.join(self.bdir, "replay.%d.json" % i)
            if rc == -999 or "panic: test timed out" in text:
                inconclusive.append("shard %d timed out" % i)
                continue
            if rc < 0:
                inconclusive.append("shard %d killed by signal %d" % (i, -rc))
                continue
            if not os.path.exists(rp):
                # no trace was written: keep the log as the replay artefact
                json.dump({"property": self.prop, "note": "test failed without writing a trace", "log_tail": text[-8000:]}, open(rp, "w"), indent=1)
            if rc == 3 and not self.replay:
                # the watchdog measures real time: a stall of the machine looks like a hang. The engines that use it
                # are deterministic, so a real hang shows again when the journal is replayed in a fresh process.
                if not self.confirm_hang(i, rp):
                    rc2 = self.rerun_shard(i, t)
                    if rc2 == 0:
                        self.stalls = getattr(self, "stalls", 0) + 1
                        continue
                    inconclusive.append("shard %d: the watchdog fired, the journal does not hang when replayed, and the repeated shard ended with %d" % (i, rc2))
                    continue
                self.minimise_hang(i, rp)
            violations.append((i, rp, text))
        stats = []
        for i in results:
            f = os.path.join(self.bdir, "stats.%d.json" % i)
            if os.path.exists(f):
                try:
                    stats += [s for s in json.load(open(f)) if s["property"] == self.prop]
                except Exception:
                    pass
        for k in sorted(known):
            print(k)
        self.write_evidence(stats, len(violations), known, inconclusive, t)
        if violations:
            i, rp, text = violations[0]
            h = hashlib.sha1(open(rp, "rb").read()).hexdigest()[:10]
            dst = os.path.join(self.here, "replays", "%s-%d-%s.json" % (self.prop, self.seed, h))
            shutil.copy(rp, dst)
            tail = [l for l in text.splitlines() if l.strip()][-25:]
            print("\n".join(tail))
            print("VIOLATION property=%s replay=%s" % (self.prop, dst))
            return 1
        if inconclusive:
            print("INCONCLUSIVE property=%s: %s" % (self.prop, "; ".join(inconclusive)))
            return 2
        if not stats or sum(s["cases"] for s in stats) == 0:
            print("INCONCLUSIVE property=%s: no case was executed" % self.prop)
            return 2
        print("OK property=%s tier=%s cases=%d wall=%.1fs" % (self.prop, self.tier, sum(s["cases"] for s in stats), time.time() - self.t0))
        return 0

    def confirm_hang(self, shard, rp, tries=3):
        """Replays a watchdog journal in fresh processes; True when it is stopped by the watchdog (or fails) again."""
        try:
            part = self.parts()[shard % len(self.parts())]
            binp = self.bins[part["pkg"]]
            for k in range(tries):
                env = self.env()
                env.update(VERIF_REPLAY_IN=rp, VERIF_REPLAY_OUT=os.path.join(self.bdir, "confirm.out.json"), VERIF_STATS=os.path.join(self.bdir, "confirm.stats.json"))
                try:
                    r = subprocess.run([binp, "-test.run", "^%s$" % part["test"], "-test.timeout", "60s"], cwd=self.bdir, env=env, capture_output=True, timeout=90)
                except subprocess.TimeoutExpired:
                    return True
                if r.returncode != 0:
                    return True
            return False
        except Exception as e:
            print("note: hang confirmation skipped:", repr(e))
            return True

    def rerun_shard(self, i, t):
        """Runs shard i again (same arguments, same PRNG value) after an unconfirmed watchdog stop."""
        shards = t.get("shards", 1)
        env = self.env(t.get("env"))
        env.update(VERIF_STATS=os.path.join(self.bdir, "stats.%d.json" % i), VERIF_REPLAY_OUT=os.path.join(self.bdir, "replay.%d.json" % i),
                   VERIF_SHARD=str(i), VERIF_SHARDS=str(shards), VERIF_BDIR=self.bdir,
                   VERIF_VERBOSE=str((i + i // max(1, len(self.parts())) + self.seed) % 2))
        try:
            os.remove(os.path.join(self.bdir, "replay.%d.json" % i))
        except OSError:
            pass
        with open(os.path.join(self.bdir, "log.%d.rerun.txt" % i), "w") as log:
            try:
                return subprocess.run(self.shard_cmd(i, t), cwd=self.bdir, env=env, stdout=log, stderr=subprocess.STDOUT, timeout=t["timeout"] + 60).returncode
            except subprocess.TimeoutExpired:
                return -999

    def minimise_hang(self, shard, rp, budget=24):
        """Delta debugging of a watchdog journal (a history that ends in a call that never returns) over
        subprocess replays: a candidate is kept when its replay is stopped by the watchdog again (exit 3)."""
        try:
            case = json.load(open(rp))
            ops = case.get("ops")
            if not isinstance(ops, list) or len(ops) < 3:
                return
            part = self.parts()[shard % len(self.parts())]
            binp = self.bins[part["pkg"]]

            def hangs(cand_ops):
                nonlocal budget
                if budget <= 0:
                    return False
                budget -= 1
                c = dict(case, ops=cand_ops)
                c.pop("failure", None)
                f = os.path.join(self.bdir, "ddmin.json")
                json.dump(c, open(f, "w"))
                env = self.env()
                env.update(VERIF_REPLAY_IN=f, VERIF_REPLAY_OUT=os.path.join(self.bdir, "ddmin.out.json"), VERIF_STATS=os.path.join(self.bdir, "ddmin.stats.json"))
                try:
                    r = subprocess.run([binp, "-test.run", "^%s$" % part["test"], "-test.timeout", "30s"], cwd=self.bdir, env=env, capture_output=True, timeout=40)
                    return r.returncode == 3
                except subprocess.TimeoutExpired:
                    return False

            last = ops[-1:]
            body = ops[:-1]
            size = max(1, len(body) // 2)
            while size >= 1 and budget > 0:
                i, removed = 0, False
                while i < len(body) and budget > 0:
                    cand = body[:i] + body[i + size:]
                    if hangs(cand + last):
                        body, removed = cand, True
                    else:
                        i += size
                if not removed:
                    size //= 2
            if len(body) + 1 < len(ops):
                case["ops"] = body + last
                case["note"] = "journal minimised by the driver from %d to %d ops (delta debugging over subprocess replays)" % (len(ops), len(body) + 1)
                if isinstance(case.get("failure"), dict):
                    case["failure"]["step"] = len(body)
                json.dump(case, open(rp, "w"), indent=1)
        except Exception as e:  # minimisation is best effort
            print("note: hang minimisation skipped:", repr(e))

    def write_evidence(self, stats, nviol, known, inconclusive, t):
        labels, hashes, samples, extra = {}, set(), [], {}
        cases = steps = 0
        for s in stats:
            cases += s["cases"]
            steps += s["steps"]
            for k, v in (s.get("labels") or {}).items():
                labels[k] = labels.get(k, 0) + v
            hashes.update(s.get("nontrivial_hashes") or [])
            for x in (s.get("samples") or [])[:1]:  # one sample per process first, so that every part of the check is represented
                if len(samples) < 4:
                    samples.append(x)
            for k, v in (s.get("extra") or {}).items():
                extra.setdefault(k, []).append(v)
        for s in stats:
            for x in (s.get("samples") or [])[1:]:
                if len(samples) < 4:
                    samples.append(x)
        cov = {
            "evaluations": cases,
            "distinct_nontrivial": len(hashes),
            "rule": self.spec["rule"],
            "samples": samples,
            "steps": steps,
            "labels": dict(sorted(labels.items())),
            "shards": t.get("shards", 1),
            "rapid_checks_per_shard": t.get("checks"),
            "known_findings_reported": sorted(known),
            "inconclusive": inconclusive,
        }
        if getattr(self, "stalls", 0):
            cov["watchdog_stops_not_reproduced_and_shard_repeated"] = self.stalls
        if extra:
            cov["extra"] = extra
        if getattr(self, "fuzz_execs", None) is not None:
            cov["native_fuzz_execs"] = self.fuzz_execs
        if self.replay:
            cov["replay_of"] = self.replay
        ev = {
            "property_id": self.prop, "tier": self.tier, "seed": self.seed, "level": self.spec.get("level", "exploration"),
            "coverage": cov, "assumptions": self.spec.get("assume", COMMON_ASSUME), "wall_s": round(time.time() - self.t0, 2), "violations": nviol,
        }
        if self.replay or os.environ.get("VERIF_NO_EVIDENCE"):
            return  # replays and runs against scratch trees do not rewrite the evidence of the registered commands
        json.dump(ev, open(os.path.join(self.here, "evidence", "%s.json" % self.prop), "w"), indent=1)
