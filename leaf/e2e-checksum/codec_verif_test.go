//go:build verif

package main

import (
	"bytes"
	"encoding/hex"
	"encoding/json"
	"errors"
	"fmt"
	"hash/fnv"
	"io"
	"log"
	"math"
	"os"
	"reflect"
	"sort"
	"strings"
	"testing"

	"google.golang.org/grpc/encoding"
	grpcproto "google.golang.org/grpc/encoding/proto"
	datastorepb "google.golang.org/genproto/googleapis/datastore/v1"
	"google.golang.org/protobuf/encoding/protowire"
	"google.golang.org/protobuf/proto"
	"google.golang.org/protobuf/reflect/protodesc"
	"google.golang.org/protobuf/reflect/protoreflect"
	"google.golang.org/protobuf/reflect/protoregistry"
	"google.golang.org/protobuf/types/descriptorpb"
	"google.golang.org/protobuf/types/dynamicpb"
	"google.golang.org/protobuf/types/known/anypb"
	"google.golang.org/protobuf/types/known/apipb"
	"google.golang.org/protobuf/types/known/emptypb"
	"google.golang.org/protobuf/types/known/structpb"
	"google.golang.org/protobuf/types/known/typepb"
	"google.golang.org/protobuf/types/known/wrapperspb"
	"pgregory.net/rapid"
	"VERIFHX_IMPORT"
)

func TestMain(m *testing.M) {
	log.SetOutput(io.Discard) // the codec logs every payload
	code := m.Run()
	hx.Flush()
	os.Exit(code)
}

// root message types the generator starts from (all linked into the module already)
var vfRoots = []proto.Message{
	&structpb.Value{}, &structpb.Struct{}, &structpb.ListValue{}, &descriptorpb.FileDescriptorProto{}, &descriptorpb.DescriptorProto{}, &descriptorpb.FieldOptions{},
	&datastorepb.Entity{}, &datastorepb.Value{}, &datastorepb.Key{}, &datastorepb.CommitRequest{}, &datastorepb.RunQueryRequest{}, &datastorepb.LookupResponse{}, &datastorepb.Mutation{},
	&anypb.Any{}, &wrapperspb.BytesValue{}, &wrapperspb.StringValue{}, &wrapperspb.DoubleValue{}, &wrapperspb.Int64Value{}, &apipb.Api{}, &typepb.Type{},
}

// A case is a history of Marshal calls on ONE codec instance (the program registers a single codec for the
// life of the process). Every step marshals the message object in slot Obj after giving it the content Wire:
// a slot that already holds an object of the same type keeps the object (same pointer, content replaced in
// place), so "the caller re-uses and edits a request" is part of the domain.
type vfStep struct {
	Obj  int    `json:"obj"`
	Type string `json:"type"`
	Wire string `json:"wireHex"` // standard encoding of the content (how the replay rebuilds it)
	How  string `json:"how,omitempty"`
	Dyn  bool   `json:"dynamic,omitempty"` // the object is a dynamicpb message of that type instead of the generated Go type
	// Feed, when set, makes the step an INCOMING message instead of a Marshal call: the bytes are handed to the codec's
	// Unmarshal with a fresh message of Type and whatever it answers is ignored (the property says nothing about damaged
	// input); what is checked is that the Marshal calls that follow on the same codec are not disturbed by it.
	Feed string `json:"incomingHex,omitempty"`
}

// Message types that declare field number 2047 themselves (built at run time, used through dynamicpb). The codec
// prepends its checksum as field 2047 with the 32-bit wire type without looking at the descriptor: for a type that
// declares 2047 with a 32-bit kind the checksum is decoded INTO that field (known finding, see DESIGN.md); for any
// other kind the wire type does not match and parsers keep it as an unknown field.
var vfOwnTypes = func() map[string]protoreflect.MessageDescriptor {
	lbl := func(rep bool) *descriptorpb.FieldDescriptorProto_Label {
		if rep {
			return descriptorpb.FieldDescriptorProto_LABEL_REPEATED.Enum()
		}
		return descriptorpb.FieldDescriptorProto_LABEL_OPTIONAL.Enum()
	}
	mk := func(name string, t descriptorpb.FieldDescriptorProto_Type, rep bool) *descriptorpb.DescriptorProto {
		return &descriptorpb.DescriptorProto{Name: proto.String(name), Field: []*descriptorpb.FieldDescriptorProto{
			{Name: proto.String("name"), Number: proto.Int32(1), Type: descriptorpb.FieldDescriptorProto_TYPE_STRING.Enum(), Label: lbl(false), JsonName: proto.String("name")},
			{Name: proto.String("tail"), Number: proto.Int32(2047), Type: t.Enum(), Label: lbl(rep), JsonName: proto.String("tail")},
			{Name: proto.String("after"), Number: proto.Int32(2048), Type: descriptorpb.FieldDescriptorProto_TYPE_BYTES.Enum(), Label: lbl(false), JsonName: proto.String("after")},
		}}
	}
	fd := &descriptorpb.FileDescriptorProto{Name: proto.String("verif_own2047.proto"), Package: proto.String("verif"), Syntax: proto.String("proto3"),
		MessageType: []*descriptorpb.DescriptorProto{
			mk("Own2047Fixed32", descriptorpb.FieldDescriptorProto_TYPE_FIXED32, false), mk("Own2047Sfixed32", descriptorpb.FieldDescriptorProto_TYPE_SFIXED32, false),
			mk("Own2047Float", descriptorpb.FieldDescriptorProto_TYPE_FLOAT, false), mk("Own2047RepFixed32", descriptorpb.FieldDescriptorProto_TYPE_FIXED32, true),
			mk("Own2047String", descriptorpb.FieldDescriptorProto_TYPE_STRING, false), mk("Own2047Uint64", descriptorpb.FieldDescriptorProto_TYPE_UINT64, false),
			mk("Own2047Bytes", descriptorpb.FieldDescriptorProto_TYPE_BYTES, false), mk("Own2047Fixed64", descriptorpb.FieldDescriptorProto_TYPE_FIXED64, false),
		}}
	f, err := protodesc.NewFile(fd, nil)
	if err != nil {
		panic(err)
	}
	out := map[string]protoreflect.MessageDescriptor{}
	for i := 0; i < f.Messages().Len(); i++ {
		md := f.Messages().Get(i)
		out[string(md.FullName())] = md
	}
	return out
}()

var vfOwnNames = func() []string {
	var l []string
	for n := range vfOwnTypes {
		l = append(l, n)
	}
	sort.Strings(l)
	return l
}()

// vfDeclares2047As32bit: the type declares field 2047 with a kind that travels in the 32-bit wire type.
func vfDeclares2047As32bit(typ string) bool {
	md := vfOwnTypes[typ]
	if md == nil {
		return false
	}
	f := md.Fields().ByNumber(2047)
	if f == nil {
		return false
	}
	switch f.Kind() {
	case protoreflect.Fixed32Kind, protoreflect.Sfixed32Kind, protoreflect.FloatKind:
		return true
	}
	return false
}

var vfKnownPrinted = map[string]bool{}

// vfKnownFinding returns the text of the open known finding (known_findings.json) that explains failure f of a step
// on type typ, or "". It never adds to the file.
func vfKnownFinding(typ, f string) string {
	if !vfDeclares2047As32bit(typ) || !strings.Contains(f, "decoded message") {
		return ""
	}
	b, err := os.ReadFile(os.Getenv("VERIF_KNOWN"))
	if err != nil {
		return ""
	}
	var k struct {
		Findings []struct {
			Property, Status, ID, What string
			Signature                  struct{ Kind string }
		}
	}
	if json.Unmarshal(b, &k) != nil {
		return ""
	}
	for _, x := range k.Findings {
		if x.Property == "C19" && x.Status == "open" && x.Signature.Kind == "message-type-declares-field-2047-with-a-32-bit-kind" {
			return x.What
		}
	}
	return ""
}

type vfCodecCase struct {
	Property string   `json:"property,omitempty"`
	Type     string   `json:"type,omitempty"`    // single-step form
	Wire     string   `json:"wireHex,omitempty"` // single-step form
	Steps    []vfStep `json:"steps,omitempty"`
	Pad      int      `json:"underlyingCodecSpareCapacity,omitempty"` // >0: the wrapped codec returns its bytes in a slice with that much spare capacity
	Failure  string   `json:"failure,omitempty"`
}

// vfCrc32c is a bitwise, table-free reference (Castagnoli, reflected polynomial 0x82F63B78).
func vfCrc32c(b []byte) uint32 {
	crc := ^uint32(0)
	for _, x := range b {
		crc ^= uint32(x)
		for i := 0; i < 8; i++ {
			if crc&1 != 0 {
				crc = crc>>1 ^ 0x82F63B78
			} else {
				crc >>= 1
			}
		}
	}
	return ^crc
}

type vfWireField struct {
	num protowire.Number
	typ protowire.Type
	raw []byte
}

// vfWalk splits b into its top-level fields (harness-written, only protowire's primitive readers).
func vfWalk(b []byte) ([]vfWireField, error) {
	var out []vfWireField
	for len(b) > 0 {
		num, typ, n := protowire.ConsumeTag(b)
		if n < 0 {
			return nil, fmt.Errorf("bad tag at %d bytes before the end", len(b))
		}
		m := protowire.ConsumeFieldValue(num, typ, b[n:])
		if m < 0 {
			return nil, fmt.Errorf("bad value of field %d", num)
		}
		out = append(out, vfWireField{num, typ, b[:n+m]})
		b = b[n+m:]
	}
	return out, nil
}

func vfHasMap(m protoreflect.Message, depth int) bool {
	found := false
	m.Range(func(fd protoreflect.FieldDescriptor, v protoreflect.Value) bool {
		switch {
		case fd.IsMap():
			if v.Map().Len() > 1 {
				found = true
			}
			if fd.MapValue().Message() != nil {
				v.Map().Range(func(_ protoreflect.MapKey, mv protoreflect.Value) bool {
					if vfHasMap(mv.Message(), depth+1) {
						found = true
					}
					return true
				})
			}
		case fd.IsList() && fd.Message() != nil:
			for i := 0; i < v.List().Len(); i++ {
				if vfHasMap(v.List().Get(i).Message(), depth+1) {
					found = true
				}
			}
		case fd.Message() != nil:
			if vfHasMap(v.Message(), depth+1) {
				found = true
			}
		}
		return !found
	})
	return found
}

func vfStripChecksum(m proto.Message) int {
	u := m.ProtoReflect().GetUnknown()
	var kept []byte
	n := 0
	for len(u) > 0 {
		num, typ, k := protowire.ConsumeTag(u)
		if k < 0 {
			break
		}
		l := protowire.ConsumeFieldValue(num, typ, u[k:])
		if l < 0 {
			break
		}
		if num == 2047 && typ == protowire.Fixed32Type {
			n++
		} else {
			kept = append(kept, u[:k+l]...)
		}
		u = u[k+l:]
	}
	m.ProtoReflect().SetUnknown(kept)
	return n
}

func vfNewCodec() *myCodec { return &myCodec{protoCodec: encoding.GetCodec(grpcproto.Name)} }

// vfPadCodec is an underlying codec whose Marshal result has spare capacity (a codec is free to return such slices;
// dynamicpb messages and pooled buffers do). Everything else is the stock proto codec.
type vfPadCodec struct {
	inner encoding.Codec
	pad   int
}

func (p vfPadCodec) Marshal(v interface{}) ([]byte, error) {
	b, err := p.inner.Marshal(v)
	if err != nil {
		return b, err
	}
	nb := make([]byte, len(b), len(b)+p.pad)
	copy(nb, b)
	for i := len(b); i < cap(nb); i++ {
		nb[:cap(nb)][i] = 0xEE
	}
	return nb, nil
}
func (p vfPadCodec) Unmarshal(b []byte, v interface{}) error { return p.inner.Unmarshal(b, v) }
func (p vfPadCodec) Name() string                            { return p.inner.Name() }

func vfCheckCodec(m proto.Message) (failure string, labels map[string]int) {
	return vfCheckCodecWith(vfNewCodec(), m)
}

func vfCheckCodecWith(c *myCodec, m proto.Message) (failure string, labels map[string]int) {
	labels = map[string]int{}
	orig := proto.Clone(m)
	var out []byte
	var err error
	var p interface{}
	func() {
		defer func() { p = recover() }()
		out, err = c.Marshal(m)
	}()
	if p != nil {
		return fmt.Sprintf("Marshal panicked: %v", p), labels
	}
	if _, uerr := encoding.GetCodec(grpcproto.Name).Marshal(proto.Clone(orig)); uerr != nil {
		// e.g. a proto2 message with an unset required field: the underlying error must be passed through
		labels["underlying-marshal-error-passed-through"]++
		same := err != nil && err.Error() == uerr.Error()
		if _, dynamic := m.(*dynamicpb.Message); dynamic && err != nil && !same {
			// a dynamic message with several unset required fields names whichever it meets first (map order): two calls of
			// the underlying codec need not produce the same text
			// (protobuf-go writes its "proto:" prefix with a space or a non-breaking space depending on the build)
			const mark = "required field"
			same = strings.Contains(err.Error(), mark) && strings.Contains(uerr.Error(), mark)
		}
		if !same {
			return fmt.Sprintf("underlying codec fails with %v, the checksum codec returned %v", uerr, err), labels
		}
		return "", labels
	}
	if err != nil {
		return fmt.Sprintf("Marshal of a valid message failed: %v", err), labels
	}
	if !proto.Equal(orig, m) {
		return "Marshal changed the message", labels
	}
	// outputs handed out earlier must stay what they were (no aliasing of internal buffers)
	for _, r := range vfRecent {
		if !bytes.Equal(r.out, r.snap) {
			return fmt.Sprintf("an output returned by an earlier Marshal call (%d bytes) was overwritten by a later call: was % x, now % x", len(r.snap), r.snap, r.out), labels
		}
	}
	vfRecent = append(vfRecent, vfHeld{out, append([]byte{}, out...)})
	if len(vfRecent) > 8 {
		vfRecent = vfRecent[1:]
	}
	if len(out) < 6 || out[0] != 0xFD || out[1] != 0x7F {
		return fmt.Sprintf("output does not start with the tag of field 2047 / 32-bit (FD 7F): % x", out[:min(len(out), 8)]), labels
	}
	body := out[6:]
	got := uint32(out[2]) | uint32(out[3])<<8 | uint32(out[4])<<16 | uint32(out[5])<<24
	if want := vfCrc32c(body); got != want {
		return fmt.Sprintf("checksum field carries %08x, CRC32C of the payload is %08x", got, want), labels
	}
	if len(body) != proto.Size(m) {
		return fmt.Sprintf("payload has %d bytes, proto.Size is %d", len(body), proto.Size(m)), labels
	}
	fields, err := vfWalk(out)
	if err != nil {
		return "output is not a well-formed protobuf encoding: " + err.Error(), labels
	}
	n2047 := 0
	for i, f := range fields {
		if f.num == 2047 && f.typ == protowire.Fixed32Type {
			n2047++
			if i != 0 {
				// the message itself may carry an unknown field 2047 of its own; only the first position is the codec's
				labels["message-has-own-field-2047"]++
			}
		}
	}
	bodyFields, err := vfWalk(body)
	if err != nil {
		return "payload is not a well-formed protobuf encoding: " + err.Error(), labels
	}
	if len(fields) != len(bodyFields)+1 {
		return fmt.Sprintf("output has %d top-level fields, payload %d: want exactly one extra field", len(fields), len(bodyFields)), labels
	}
	for i := range bodyFields {
		if !bytes.Equal(fields[i+1].raw, bodyFields[i].raw) {
			return fmt.Sprintf("top-level field #%d of the output differs from the payload", i+1), labels
		}
	}
	mapFree := !vfHasMap(m.ProtoReflect(), 0)
	if _, dynamic := m.(*dynamicpb.Message); dynamic {
		// a dynamic message keeps its fields in a Go map: the (non-deterministic) standard encoding may order them in any
		// way, like map entries; the byte-for-byte comparison with the deterministic encoding does not apply
		mapFree = false
		labels["dynamic-message-field-order-free"]++
	}
	if mapFree {
		labels["map-free"]++
		std, err := proto.MarshalOptions{Deterministic: true}.Marshal(m)
		if err != nil {
			return "harness: " + err.Error(), labels
		}
		if !bytes.Equal(std, body) {
			return fmt.Sprintf("payload differs from the standard encoding of the message (%d vs %d bytes)", len(body), len(std)), labels
		}
	} else {
		labels["has-multi-entry-map"]++
	}
	// payload alone decodes to the original
	back := m.ProtoReflect().New().Interface()
	if err := proto.Unmarshal(body, back); err != nil || !proto.Equal(back, orig) {
		return fmt.Sprintf("decoding the payload does not give back the message (err=%v)", err), labels
	}
	// whole output through the codec and through a plain parser: equal up to the one unknown field 2047
	for name, dec := range map[string]func([]byte, proto.Message) error{
		"codec":  func(b []byte, v proto.Message) error { return c.Unmarshal(b, v) },
		"parser": func(b []byte, v proto.Message) error { return proto.Unmarshal(b, v) },
	} {
		v := m.ProtoReflect().New().Interface()
		// the receiver owns its buffer and re-uses it as soon as the call has returned: the decoded message must not
		// depend on it any more
		buf := append(make([]byte, 0, len(out)+8), out...)
		if err := dec(buf, v); err != nil {
			return fmt.Sprintf("%s cannot decode the output: %v", name, err), labels
		}
		for i := range buf {
			buf[i] = 0
		}
		ownBefore := 0
		{
			o := proto.Clone(orig)
			ownBefore = vfStripChecksum(o)
		}
		removed := vfStripChecksum(v)
		o := proto.Clone(orig)
		vfStripChecksum(o)
		if removed != ownBefore+1 {
			return fmt.Sprintf("%s: decoded message carries %d unknown fields 2047/fixed32, want %d", name, removed, ownBefore+1), labels
		}
		if !proto.Equal(v, o) {
			return fmt.Sprintf("%s: decoded message differs from the original", name), labels
		}
	}
	if len(body) > 4096 {
		labels["large-message"]++
	}
	if len(m.ProtoReflect().GetUnknown()) > 0 {
		labels["with-unknown-fields"]++
	}
	if len(body) == 0 {
		labels["empty-message"]++
	}
	// the returned bytes are the caller's: every third output is overwritten after it has been checked (a later Marshal,
	// of an empty message in particular, must not hand out the same memory again)
	vfScribble++
	if vfScribble%3 == 0 {
		for i := range out {
			out[i] = 0xFF
		}
		if n := len(vfRecent); n > 0 && len(vfRecent[n-1].out) == len(out) {
			vfRecent[n-1].snap = append([]byte{}, out...)
		}
		labels["caller-overwrites-the-returned-bytes"]++
	}
	return "", labels
}

var vfScribble int

// ---- descriptor-driven filler ----------------------------------------------------------------------

func vfGenScalar(rt *rapid.T, fd protoreflect.FieldDescriptor) protoreflect.Value {
	switch fd.Kind() {
	case protoreflect.BoolKind:
		return protoreflect.ValueOfBool(rapid.Bool().Draw(rt, "b"))
	case protoreflect.EnumKind:
		vals := fd.Enum().Values()
		if rapid.IntRange(0, 9).Draw(rt, "unkenum") == 0 {
			return protoreflect.ValueOfEnum(protoreflect.EnumNumber(rapid.Int32().Draw(rt, "enumnum")))
		}
		return protoreflect.ValueOfEnum(vals.Get(rapid.IntRange(0, vals.Len()-1).Draw(rt, "enum")).Number())
	case protoreflect.Int32Kind, protoreflect.Sint32Kind, protoreflect.Sfixed32Kind:
		return protoreflect.ValueOfInt32(rapid.SampledFrom([]int32{0, 1, -1, 127, 128, math.MaxInt32, math.MinInt32}).Draw(rt, "i32"))
	case protoreflect.Int64Kind, protoreflect.Sint64Kind, protoreflect.Sfixed64Kind:
		return protoreflect.ValueOfInt64(rapid.SampledFrom([]int64{0, 1, -1, 1 << 35, math.MaxInt64, math.MinInt64}).Draw(rt, "i64"))
	case protoreflect.Uint32Kind, protoreflect.Fixed32Kind:
		return protoreflect.ValueOfUint32(rapid.SampledFrom([]uint32{0, 1, 300, math.MaxUint32}).Draw(rt, "u32"))
	case protoreflect.Uint64Kind, protoreflect.Fixed64Kind:
		return protoreflect.ValueOfUint64(rapid.SampledFrom([]uint64{0, 1, 1 << 40, math.MaxUint64}).Draw(rt, "u64"))
	case protoreflect.FloatKind:
		return protoreflect.ValueOfFloat32(rapid.SampledFrom([]float32{0, 1.5, -2, float32(math.Inf(1)), math.MaxFloat32}).Draw(rt, "f32"))
	case protoreflect.DoubleKind:
		return protoreflect.ValueOfFloat64(rapid.SampledFrom([]float64{0, 1.5, -2, math.Inf(-1), math.MaxFloat64, math.SmallestNonzeroFloat64}).Draw(rt, "f64"))
	case protoreflect.StringKind:
		return protoreflect.ValueOfString(rapid.SampledFrom([]string{"", "a", "key", "ünï", "type.googleapis.com/google.protobuf.Value", "x\x00y"}).Draw(rt, "s"))
	case protoreflect.BytesKind:
		n := rapid.SampledFrom([]int{0, 1, 3, 17, 300}).Draw(rt, "blen")
		if x := rapid.IntRange(0, 299).Draw(rt, "bigbytes"); x == 0 {
			n = 1 << 21
		} else if x < 20 {
			n = 70000
		}
		if n > vfBytes {
			n = 17
		}
		vfBytes -= n
		b := make([]byte, n)
		seed := byte(rapid.IntRange(0, 255).Draw(rt, "bseed"))
		for i := range b {
			b[i] = seed + byte(i*7)
		}
		return protoreflect.ValueOfBytes(b)
	}
	return protoreflect.Value{}
}

// vfBudget bounds the number of fields set per generated message (deep and wide at once would explode).
var vfBudget int

// vfBytes bounds the total size of the byte fields of one generated message.
var vfBytes int

func vfFillMsg(rt *rapid.T, m protoreflect.Message, depth int) {
	fds := m.Descriptor().Fields()
	for i := 0; i < fds.Len(); i++ {
		if vfBudget <= 0 {
			return
		}
		vfBudget--
		fd := fds.Get(i)
		if rapid.IntRange(0, 2).Draw(rt, "present") != 0 && (fd.Cardinality() != protoreflect.Required || rapid.IntRange(0, 9).Draw(rt, "dropRequired") == 0) {
			continue
		}
		if oo := fd.ContainingOneof(); oo != nil && m.WhichOneof(oo) != nil {
			continue
		}
		isMsg := fd.Message() != nil && !fd.IsMap()
		if (isMsg || (fd.IsMap() && fd.MapValue().Message() != nil)) && depth <= 0 {
			continue
		}
		switch {
		case fd.IsMap():
			mp := m.Mutable(fd).Map()
			n := rapid.IntRange(0, 3).Draw(rt, "maplen")
			for j := 0; j < n; j++ {
				k := vfGenScalar(rt, fd.MapKey()).MapKey()
				if fd.MapValue().Message() != nil {
					v := mp.NewValue()
					vfFillMsg(rt, v.Message(), depth-1)
					mp.Set(k, v)
				} else {
					mp.Set(k, vfGenScalar(rt, fd.MapValue()))
				}
			}
		case fd.IsList():
			l := m.Mutable(fd).List()
			n := rapid.IntRange(0, 4).Draw(rt, "listlen")
			if rapid.IntRange(0, 19).Draw(rt, "biglist") == 0 {
				n = rapid.SampledFrom([]int{8, 8, 130, 300}).Draw(rt, "biglen")
				if isMsg && vfBudget < 1500 {
					n = 8
				}
			}
			vfBudget -= n
			for j := 0; j < n; j++ {
				if isMsg {
					v := l.NewElement()
					vfFillMsg(rt, v.Message(), depth-1)
					l.Append(v)
				} else {
					l.Append(vfGenScalar(rt, fd))
				}
			}
		case isMsg:
			vfFillMsg(rt, m.Mutable(fd).Message(), depth-1)
		default:
			m.Set(fd, vfGenScalar(rt, fd))
		}
	}
	if rapid.IntRange(0, 5).Draw(rt, "unknown") == 0 {
		var u []byte
		n := rapid.IntRange(1, 3).Draw(rt, "nunk")
		for j := 0; j < n; j++ {
			num := protowire.Number(rapid.SampledFrom([]int{1000, 1999, 2047, 2048, 19000 - 1, 536870911}).Draw(rt, "unum"))
			if m.Descriptor().Fields().ByNumber(num) != nil {
				continue // a declared field: bytes under that number would not be unknown fields
			}
			switch rapid.IntRange(0, 3).Draw(rt, "utyp") {
			case 0:
				u = protowire.AppendVarint(protowire.AppendTag(u, num, protowire.VarintType), rapid.Uint64().Draw(rt, "uv"))
			case 1:
				u = protowire.AppendFixed32(protowire.AppendTag(u, num, protowire.Fixed32Type), rapid.Uint32().Draw(rt, "u32v"))
			case 2:
				u = protowire.AppendFixed64(protowire.AppendTag(u, num, protowire.Fixed64Type), rapid.Uint64().Draw(rt, "u64v"))
			default:
				u = protowire.AppendBytes(protowire.AppendTag(u, num, protowire.BytesType), []byte("unknown-bytes"))
			}
		}
		m.SetUnknown(u)
	}
}

func vfGenMessage(rt *rapid.T) proto.Message {
	root := rapid.SampledFrom(vfRoots).Draw(rt, "root")
	m := root.ProtoReflect().New()
	vfBudget = 3000
	vfBytes = 3 << 20
	depth := rapid.IntRange(0, 5).Draw(rt, "depth")
	if rapid.IntRange(0, 29).Draw(rt, "deep") == 0 {
		depth = rapid.SampledFrom([]int{9, 14}).Draw(rt, "depthdeep")
	}
	vfFillMsg(rt, m, depth)
	return m.Interface()
}

type vfHeld struct{ out, snap []byte }

var vfRecent []vfHeld

type vfFailingCodec struct{ err error }

func (f vfFailingCodec) Marshal(v interface{}) ([]byte, error)   { return []byte("partial"), f.err }
func (f vfFailingCodec) Unmarshal(b []byte, v interface{}) error { return f.err }
func (f vfFailingCodec) Name() string                            { return "failing" }

func vfCheckErrors() string {
	e := errors.New("underlying codec failed")
	c := &myCodec{protoCodec: vfFailingCodec{e}}
	if _, err := c.Marshal(&structpb.Value{}); err != e {
		return fmt.Sprintf("error of the underlying codec not passed through: %v", err)
	}
	if err := c.Unmarshal([]byte{1}, &structpb.Value{}); err != e {
		return fmt.Sprintf("Unmarshal error of the underlying codec not passed through: %v", err)
	}
	real := &myCodec{protoCodec: encoding.GetCodec(grpcproto.Name)}
	_, werr := encoding.GetCodec(grpcproto.Name).Marshal(42)
	if _, err := real.Marshal(42); err == nil || werr == nil || err.Error() != werr.Error() {
		return fmt.Sprintf("non-proto value: codec error %v, underlying codec error %v", err, werr)
	}
	// nil and typed-nil messages: whatever the underlying codec answers (an error, today) is passed through
	nils := []interface{}{nil}
	for _, r := range vfRoots {
		nils = append(nils, reflect.Zero(reflect.TypeOf(r)).Interface())
	}
	for _, v := range nils {
		wb, werr := encoding.GetCodec(grpcproto.Name).Marshal(v)
		var b []byte
		var err error
		var p interface{}
		func() {
			defer func() { p = recover() }()
			b, err = real.Marshal(v)
		}()
		if werr != nil {
			if p != nil || err == nil || err.Error() != werr.Error() {
				return fmt.Sprintf("Marshal(%T nil): underlying codec fails with %q, the checksum codec returned (% x, %v, panic %v)", v, werr, b, err, p)
			}
		} else if p != nil || err != nil || len(b) != len(wb)+6 {
			return fmt.Sprintf("Marshal(%T nil): underlying codec returns % x, the checksum codec returned (% x, %v, panic %v)", v, wb, b, err, p)
		}
	}
	return ""
}

// vfOutputOf: what the codec is specified to produce for the content of a Marshal step.
func vfOutputOf(st vfStep) []byte {
	b, _ := hex.DecodeString(st.Wire)
	crc := vfCrc32c(b)
	return append([]byte{0xFD, 0x7F, byte(crc), byte(crc >> 8), byte(crc >> 16), byte(crc >> 24)}, b...)
}

func vfWireOf(m proto.Message) string {
	std, _ := proto.MarshalOptions{Deterministic: true, AllowPartial: true}.Marshal(m)
	return hex.EncodeToString(std)
}

func vfRunOne(m proto.Message) (*vfCodecCase, string, map[string]int) {
	c := &vfCodecCase{Steps: []vfStep{{Type: string(m.ProtoReflect().Descriptor().FullName()), Wire: vfWireOf(m)}}}
	f, l := vfCheckCodec(m)
	return c, f, l
}

func vfNewOf(typ string, dyn bool) (proto.Message, error) {
	if md := vfOwnTypes[typ]; md != nil {
		return dynamicpb.NewMessage(md), nil
	}
	mt, err := protoregistry.GlobalTypes.FindMessageByName(protoreflect.FullName(typ))
	if err != nil {
		return nil, err
	}
	if dyn {
		return dynamicpb.NewMessage(mt.Descriptor()), nil
	}
	return mt.New().Interface(), nil
}

// vfScalarSites lists the populated scalar positions of m that can be edited in place (singular fields and
// list elements; maps are left alone because their iteration order is not defined), in descriptor order.
type vfSite struct {
	m   protoreflect.Message
	fd  protoreflect.FieldDescriptor
	idx int // -1: singular
}

func vfScalarSites(m protoreflect.Message, out []vfSite, depth int) []vfSite {
	fds := m.Descriptor().Fields()
	for i := 0; i < fds.Len() && len(out) < 4000; i++ {
		fd := fds.Get(i)
		if !m.Has(fd) || fd.IsMap() {
			continue
		}
		switch {
		case fd.IsList() && fd.Message() != nil:
			l := m.Get(fd).List()
			for k := 0; k < l.Len() && depth < 20; k++ {
				out = vfScalarSites(l.Get(k).Message(), out, depth+1)
			}
		case fd.IsList():
			for k := 0; k < m.Get(fd).List().Len(); k++ {
				out = append(out, vfSite{m, fd, k})
			}
		case fd.Message() != nil:
			if depth < 20 {
				out = vfScalarSites(m.Get(fd).Message(), out, depth+1)
			}
		default:
			out = append(out, vfSite{m, fd, -1})
		}
	}
	return out
}

// vfEdit changes the value at the site to a different one, preferring a value whose encoding has the same
// length (another bit pattern of a fixed-width number, a string or byte string of the same length).
func vfEdit(s vfSite, salt byte) {
	var v protoreflect.Value
	if s.idx >= 0 {
		v = s.m.Get(s.fd).List().Get(s.idx)
	} else {
		v = s.m.Get(s.fd)
	}
	var nv protoreflect.Value
	switch s.fd.Kind() {
	case protoreflect.BoolKind:
		nv = protoreflect.ValueOfBool(!v.Bool())
	case protoreflect.EnumKind:
		nv = protoreflect.ValueOfEnum(v.Enum() ^ 1)
	case protoreflect.Int32Kind, protoreflect.Sint32Kind, protoreflect.Sfixed32Kind:
		nv = protoreflect.ValueOfInt32(int32(v.Int()) ^ (2 << (salt % 3)))
	case protoreflect.Int64Kind, protoreflect.Sint64Kind, protoreflect.Sfixed64Kind:
		nv = protoreflect.ValueOfInt64(v.Int() ^ (2 << (salt % 3)))
	case protoreflect.Uint32Kind, protoreflect.Fixed32Kind:
		nv = protoreflect.ValueOfUint32(uint32(v.Uint()) ^ (2 << (salt % 3)))
	case protoreflect.Uint64Kind, protoreflect.Fixed64Kind:
		nv = protoreflect.ValueOfUint64(v.Uint() ^ (2 << (salt % 3)))
	case protoreflect.FloatKind:
		nv = protoreflect.ValueOfFloat32(math.Float32frombits(math.Float32bits(float32(v.Float())) ^ (1 << (salt % 20))))
	case protoreflect.DoubleKind:
		nv = protoreflect.ValueOfFloat64(math.Float64frombits(math.Float64bits(v.Float()) ^ (1 << (salt % 50))))
	case protoreflect.StringKind:
		b := []byte(v.String())
		for i := range b {
			if b[i] < 0x80 { // keep it valid UTF-8: replace one ASCII character by another
				b[i] = 'A' + (b[i]+1+salt%20)%26
				break
			}
		}
		if len(b) == 0 {
			b = []byte("q")
		}
		nv = protoreflect.ValueOfString(string(b))
	case protoreflect.BytesKind:
		b := append([]byte{}, v.Bytes()...)
		if len(b) == 0 {
			b = []byte{salt}
		} else {
			b[int(salt)%len(b)] ^= 0x55
		}
		nv = protoreflect.ValueOfBytes(b)
	default:
		return
	}
	if s.idx >= 0 {
		s.m.Get(s.fd).List().Set(s.idx, nv)
	} else {
		s.m.Set(s.fd, nv)
	}
}

// vfRunHistory executes the steps on one codec instance; objects live in slots and are re-used in place.
func vfRunHistory(c *vfCodecCase) (string, map[string]int, int) {
	labels := map[string]int{}
	steps := c.Steps
	if len(steps) == 0 {
		steps = []vfStep{{Type: c.Type, Wire: c.Wire}}
	}
	codec := vfNewCodec()
	if c.Pad > 0 {
		codec.protoCodec = vfPadCodec{codec.protoCodec, c.Pad}
		labels["underlying-codec-returns-spare-capacity"]++
	}
	slots := map[int]proto.Message{}
	isDyn := map[int]bool{}
	for i, s := range steps {
		b, err := hex.DecodeString(s.Wire)
		if err != nil {
			return "harness: " + err.Error(), labels, i
		}
		if s.Feed != "" {
			data, err := hex.DecodeString(s.Feed)
			if err != nil {
				return "harness: " + err.Error(), labels, i
			}
			v, err := vfNewOf(s.Type, s.Dyn)
			if err != nil {
				return "harness: " + err.Error(), labels, i
			}
			func() {
				defer func() { recover() }()
				if codec.Unmarshal(data, v) != nil {
					labels["incoming-message-refused-by-the-codec"]++
				}
			}()
			labels["incoming-message-step"]++
			continue
		}
		m := slots[s.Obj]
		if m == nil || string(m.ProtoReflect().Descriptor().FullName()) != s.Type || isDyn[s.Obj] != s.Dyn {
			if m, err = vfNewOf(s.Type, s.Dyn); err != nil {
				return "harness: " + err.Error(), labels, i
			}
			slots[s.Obj], isDyn[s.Obj] = m, s.Dyn
			if s.Dyn {
				labels["dynamicpb-message"]++
			}
		} else {
			labels["object-reused-in-place"]++
			proto.Reset(m)
		}
		if err := (proto.UnmarshalOptions{AllowPartial: true}).Unmarshal(b, m); err != nil { // proto2 messages may lack required fields on purpose
			return "harness: " + err.Error(), labels, i
		}
		f, l := vfCheckCodecWith(codec, m)
		for k, v := range l {
			labels[k] += v
		}
		if f != "" {
			return fmt.Sprintf("call #%d on the same codec (%s, slot %d, %s): %s", i+1, s.Type, s.Obj, s.How, f), labels, i
		}
	}
	return "", labels, len(steps)
}

// vfGenHistory draws a history: fresh messages, unchanged re-marshals, in-place edits of an object marshalled
// earlier (mostly same-size edits), several live objects interleaved.
func vfGenHistory(rt *rapid.T) *vfCodecCase {
	c := &vfCodecCase{}
	if rapid.IntRange(0, 4).Draw(rt, "padded") == 0 {
		c.Pad = rapid.SampledFrom([]int{1, 5, 6, 7, 64, 4096}).Draw(rt, "pad")
	}
	live := map[int]proto.Message{}
	dyn := map[int]bool{}
	n := 1
	if rapid.IntRange(0, 2).Draw(rt, "multi") == 0 {
		n = rapid.IntRange(2, 6).Draw(rt, "steps")
	}
	for i := 0; i < n && len(c.Steps) < 14; i++ {
		slot := rapid.IntRange(0, 2).Draw(rt, "slot")
		m := live[slot]
		how := "fresh"
		kind := rapid.IntRange(0, 7).Draw(rt, "kind")
		if kind >= 6 && len(c.Steps) == 0 {
			kind = 0
		}
		if kind == 7 {
			// an incoming message between two Marshal calls: the output of an earlier call, as it is or damaged
			prev := c.Steps[rapid.IntRange(0, len(c.Steps)-1).Draw(rt, "feedOf")]
			data := vfOutputOf(prev)
			dmg := rapid.SampledFrom([]string{"intact", "checksum-bit", "payload-bit", "truncated", "garbage", "checksum-only"}).Draw(rt, "damage")
			switch {
			case dmg == "checksum-bit":
				data[2+rapid.IntRange(0, 3).Draw(rt, "cb")] ^= 1 << rapid.IntRange(0, 7).Draw(rt, "bit")
			case dmg == "payload-bit" && len(data) > 6:
				data[6+rapid.IntRange(0, len(data)-7).Draw(rt, "pb")] ^= 1 << rapid.IntRange(0, 7).Draw(rt, "bit")
			case dmg == "truncated" && len(data) > 1:
				data = data[:rapid.IntRange(1, len(data)-1).Draw(rt, "cut")]
			case dmg == "garbage":
				data = rapid.SliceOfN(rapid.Byte(), 0, 40).Draw(rt, "garbage")
			case dmg == "checksum-only":
				data = append([]byte{0xFD, 0x7F}, rapid.SliceOfN(rapid.Byte(), 4, 4).Draw(rt, "crc")...)
			}
			if len(data) == 0 {
				data = []byte{0}
			}
			c.Steps = append(c.Steps, vfStep{Obj: slot, Type: prev.Type, Dyn: prev.Dyn, How: "incoming-" + dmg, Feed: hex.EncodeToString(data)})
			n++ // an incoming message is always followed by a Marshal call
			if n > 12 {
				n = 12
			}
			continue
		}
		if kind == 6 {
			// a relayed message: the output of an earlier call parsed by a plain parser into a type none of whose fields it
			// sets (everything, the checksum field first, stays in the unknown fields) and sent on through the codec
			prev := c.Steps[rapid.IntRange(0, len(c.Steps)-1).Draw(rt, "relayOf")]
			if prev.Feed == "" {
				r := &emptypb.Empty{}
				if proto.Unmarshal(vfOutputOf(prev), r) == nil {
					live[slot], dyn[slot] = r, false
					c.Steps = append(c.Steps, vfStep{Obj: slot, Type: "google.protobuf.Empty", Wire: vfWireOf(r), How: "relayed-output-of-an-earlier-call"})
					continue
				}
			}
			kind = 0
		}
		switch {
		case m == nil || kind == 0:
			if rapid.IntRange(0, 11).Draw(rt, "own2047") == 0 {
				dm := dynamicpb.NewMessage(vfOwnTypes[rapid.SampledFrom(vfOwnNames).Draw(rt, "owntype")])
				vfBudget, vfBytes = 50, 1<<16
				vfFillMsg(rt, dm, 1)
				m, live[slot], dyn[slot] = dm, dm, true
				break
			}
			m = vfGenMessage(rt)
			live[slot] = m
			dyn[slot] = rapid.IntRange(0, 5).Draw(rt, "dyn") == 0
		case kind == 1:
			how = "unchanged"
		default:
			sites := vfScalarSites(m.ProtoReflect(), nil, 0)
			if len(sites) == 0 {
				m = vfGenMessage(rt)
				live[slot] = m
				dyn[slot] = false
				break
			}
			before := proto.Size(m)
			k := rapid.IntRange(1, 2).Draw(rt, "nedits")
			for e := 0; e < k; e++ {
				vfEdit(sites[rapid.IntRange(0, len(sites)-1).Draw(rt, "site")], byte(rapid.IntRange(0, 255).Draw(rt, "salt")))
			}
			if proto.Size(m) == before {
				how = "edited-in-place-same-size"
			} else {
				how = "edited-in-place-other-size"
			}
		}
		c.Steps = append(c.Steps, vfStep{Obj: slot, Type: string(m.ProtoReflect().Descriptor().FullName()), Wire: vfWireOf(m), How: how, Dyn: dyn[slot]})
	}
	return c
}

func TestC19(t *testing.T) {
	st := hx.For("C19")
	replay := func(p string) {
		var c vfCodecCase
		if err := hx.Load(p, &c); err != nil {
			t.Fatal(err)
		}
		c.Failure = ""
		f, l, _ := vfRunHistory(&c)
		for _, r := range vfRoots {
			// later Marshal calls must not disturb the outputs of the replayed ones
			if f == "" {
				_, f, _ = vfRunOne(r.ProtoReflect().New().Interface())
			}
		}
		if f != "" {
			c.Failure, c.Property = f, "C19"
			hx.WriteReplay("C19", &c)
			t.Fatalf("%s: %s", p, f)
		}
		st.Case(1, l, true, &c)
	}
	if p := hx.ReplayIn(); p != "" {
		replay(p)
		return
	}
	for _, p := range hx.Corpus("C19") {
		replay(p)
		st.Label("corpus-replayed", 1)
	}
	if f := vfCheckErrors(); f != "" {
		hx.WriteReplay("C19", map[string]string{"property": "C19", "failure": f})
		t.Fatal(f)
	}
	for _, r := range vfRoots { // every root type empty
		if _, f, _ := vfRunOne(r.ProtoReflect().New().Interface()); f != "" {
			t.Fatalf("empty %T: %s", r, f)
		}
		st.AddCases(1)
	}
	rapid.Check(t, func(rt *rapid.T) {
		c := vfGenHistory(rt)
		f, l, at := vfRunHistory(c)
		if f != "" && at < len(c.Steps) {
			if k := vfKnownFinding(c.Steps[at].Type, f); k != "" {
				if !vfKnownPrinted[k] {
					vfKnownPrinted[k] = true
					fmt.Printf("KNOWN-FINDING: property=C19 %s\n", k)
				}
				st.Label("case-ends-in-a-known-finding", 1)
				c.Steps, f = c.Steps[:at], "" // what came before the known finding counts as explored
			}
		}
		if f != "" {
			st.Failed()
			c.Steps = c.Steps[:at+1]
			c.Failure, c.Property = f, "C19"
			hx.WriteReplay("C19", c)
			rt.Fatalf("%s", f)
		}
		nontriv := false
		for _, s := range c.Steps {
			l["type-"+s.Type]++
			l["step-"+s.How]++
			if len(s.Wire) > 8 {
				nontriv = true
			}
		}
		if len(c.Steps) > 1 {
			l["history-of-several-calls"]++
		}
		st.Case(len(c.Steps), l, nontriv, vfSampleOf(c))
	})
}

// vfSampleOf abbreviates very long encodings in the evidence samples (the replay file keeps them whole).
func vfSampleOf(c *vfCodecCase) *vfCodecCase {
	cc := *c
	cc.Steps = nil
	for _, s := range c.Steps {
		if len(s.Wire) > 400 {
			h := fnv.New64a()
			h.Write([]byte(s.Wire))
			s.Wire = s.Wire[:400] + fmt.Sprintf("...(%d hex digits, FNV-1a %016x)", len(s.Wire), h.Sum64())
		}
		cc.Steps = append(cc.Steps, s)
	}
	return &cc
}

// FuzzC19 decodes arbitrary bytes into a drawn root type and runs the same oracle (thorough tier).
func FuzzC19(f *testing.F) {
	f.Add(uint8(0), []byte{0x0a, 0x00})
	f.Add(uint8(6), []byte{})
	f.Fuzz(func(t *testing.T, which uint8, data []byte) {
		m := vfRoots[int(which)%len(vfRoots)].ProtoReflect().New().Interface()
		if proto.Unmarshal(data, m) != nil {
			return
		}
		c, fl, _ := vfRunOne(m)
		if fl != "" {
			c.Failure, c.Property = fl, "C19"
			hx.WriteReplay("C19", c)
			t.Fatal(fl)
		}
	})
}
