//go:build verif

package main

import (
	"bytes"
	"encoding/hex"
	"errors"
	"fmt"
	"io"
	"log"
	"math"
	"os"
	"testing"

	"google.golang.org/grpc/encoding"
	grpcproto "google.golang.org/grpc/encoding/proto"
	datastorepb "google.golang.org/genproto/googleapis/datastore/v1"
	"google.golang.org/protobuf/encoding/protowire"
	"google.golang.org/protobuf/proto"
	"google.golang.org/protobuf/reflect/protoreflect"
	"google.golang.org/protobuf/reflect/protoregistry"
	"google.golang.org/protobuf/types/descriptorpb"
	"google.golang.org/protobuf/types/known/anypb"
	"google.golang.org/protobuf/types/known/apipb"
	"google.golang.org/protobuf/types/known/structpb"
	"google.golang.org/protobuf/types/known/typepb"
	"google.golang.org/protobuf/types/known/wrapperspb"
	"pgregory.net/rapid"
	"VERIFHX_IMPORT"
)

func TestMain(m *testing.M) {
	log.SetOutput(io.Discard) // the codec logs every payload
	code := m.Run()
	hx.Flush()
	os.Exit(code)
}

// root message types the generator starts from (all linked into the module already)
var vfRoots = []proto.Message{
	&structpb.Value{}, &structpb.Struct{}, &structpb.ListValue{}, &descriptorpb.FileDescriptorProto{}, &descriptorpb.DescriptorProto{}, &descriptorpb.FieldOptions{},
	&datastorepb.Entity{}, &datastorepb.Value{}, &datastorepb.Key{}, &datastorepb.CommitRequest{}, &datastorepb.RunQueryRequest{}, &datastorepb.LookupResponse{}, &datastorepb.Mutation{},
	&anypb.Any{}, &wrapperspb.BytesValue{}, &wrapperspb.StringValue{}, &wrapperspb.DoubleValue{}, &wrapperspb.Int64Value{}, &apipb.Api{}, &typepb.Type{},
}

type vfCodecCase struct {
	Property string `json:"property,omitempty"`
	Type     string `json:"type"`
	Wire     string `json:"wireHex"` // standard encoding of the generated message (how the replay rebuilds it)
	Failure  string `json:"failure,omitempty"`
}

// vfCrc32c is a bitwise, table-free reference (Castagnoli, reflected polynomial 0x82F63B78).
func vfCrc32c(b []byte) uint32 {
	crc := ^uint32(0)
	for _, x := range b {
		crc ^= uint32(x)
		for i := 0; i < 8; i++ {
			if crc&1 != 0 {
				crc = crc>>1 ^ 0x82F63B78
			} else {
				crc >>= 1
			}
		}
	}
	return ^crc
}

type vfWireField struct {
	num protowire.Number
	typ protowire.Type
	raw []byte
}

// vfWalk splits b into its top-level fields (harness-written, only protowire's primitive readers).
func vfWalk(b []byte) ([]vfWireField, error) {
	var out []vfWireField
	for len(b) > 0 {
		num, typ, n := protowire.ConsumeTag(b)
		if n < 0 {
			return nil, fmt.Errorf("bad tag at %d bytes before the end", len(b))
		}
		m := protowire.ConsumeFieldValue(num, typ, b[n:])
		if m < 0 {
			return nil, fmt.Errorf("bad value of field %d", num)
		}
		out = append(out, vfWireField{num, typ, b[:n+m]})
		b = b[n+m:]
	}
	return out, nil
}

func vfHasMap(m protoreflect.Message, depth int) bool {
	found := false
	m.Range(func(fd protoreflect.FieldDescriptor, v protoreflect.Value) bool {
		switch {
		case fd.IsMap():
			if v.Map().Len() > 1 {
				found = true
			}
			if fd.MapValue().Message() != nil {
				v.Map().Range(func(_ protoreflect.MapKey, mv protoreflect.Value) bool {
					if vfHasMap(mv.Message(), depth+1) {
						found = true
					}
					return true
				})
			}
		case fd.IsList() && fd.Message() != nil:
			for i := 0; i < v.List().Len(); i++ {
				if vfHasMap(v.List().Get(i).Message(), depth+1) {
					found = true
				}
			}
		case fd.Message() != nil:
			if vfHasMap(v.Message(), depth+1) {
				found = true
			}
		}
		return !found
	})
	return found
}

func vfStripChecksum(m proto.Message) int {
	u := m.ProtoReflect().GetUnknown()
	var kept []byte
	n := 0
	for len(u) > 0 {
		num, typ, k := protowire.ConsumeTag(u)
		if k < 0 {
			break
		}
		l := protowire.ConsumeFieldValue(num, typ, u[k:])
		if l < 0 {
			break
		}
		if num == 2047 && typ == protowire.Fixed32Type {
			n++
		} else {
			kept = append(kept, u[:k+l]...)
		}
		u = u[k+l:]
	}
	m.ProtoReflect().SetUnknown(kept)
	return n
}

func vfCheckCodec(m proto.Message) (failure string, labels map[string]int) {
	labels = map[string]int{}
	c := &myCodec{protoCodec: encoding.GetCodec(grpcproto.Name)}
	orig := proto.Clone(m)
	var out []byte
	var err error
	var p interface{}
	func() {
		defer func() { p = recover() }()
		out, err = c.Marshal(m)
	}()
	if p != nil {
		return fmt.Sprintf("Marshal panicked: %v", p), labels
	}
	if _, uerr := c.protoCodec.Marshal(proto.Clone(orig)); uerr != nil {
		// e.g. a proto2 message with an unset required field: the underlying error must be passed through
		labels["underlying-marshal-error-passed-through"]++
		if err == nil || err.Error() != uerr.Error() {
			return fmt.Sprintf("underlying codec fails with %v, the checksum codec returned %v", uerr, err), labels
		}
		return "", labels
	}
	if err != nil {
		return fmt.Sprintf("Marshal of a valid message failed: %v", err), labels
	}
	if !proto.Equal(orig, m) {
		return "Marshal changed the message", labels
	}
	// outputs handed out earlier must stay what they were (no aliasing of internal buffers)
	for _, r := range vfRecent {
		if !bytes.Equal(r.out, r.snap) {
			return fmt.Sprintf("an output returned by an earlier Marshal call (%d bytes) was overwritten by a later call: was % x, now % x", len(r.snap), r.snap, r.out), labels
		}
	}
	vfRecent = append(vfRecent, vfHeld{out, append([]byte{}, out...)})
	if len(vfRecent) > 8 {
		vfRecent = vfRecent[1:]
	}
	if len(out) < 6 || out[0] != 0xFD || out[1] != 0x7F {
		return fmt.Sprintf("output does not start with the tag of field 2047 / 32-bit (FD 7F): % x", out[:min(len(out), 8)]), labels
	}
	body := out[6:]
	got := uint32(out[2]) | uint32(out[3])<<8 | uint32(out[4])<<16 | uint32(out[5])<<24
	if want := vfCrc32c(body); got != want {
		return fmt.Sprintf("checksum field carries %08x, CRC32C of the payload is %08x", got, want), labels
	}
	if len(body) != proto.Size(m) {
		return fmt.Sprintf("payload has %d bytes, proto.Size is %d", len(body), proto.Size(m)), labels
	}
	fields, err := vfWalk(out)
	if err != nil {
		return "output is not a well-formed protobuf encoding: " + err.Error(), labels
	}
	n2047 := 0
	for i, f := range fields {
		if f.num == 2047 && f.typ == protowire.Fixed32Type {
			n2047++
			if i != 0 {
				// the message itself may carry an unknown field 2047 of its own; only the first position is the codec's
				labels["message-has-own-field-2047"]++
			}
		}
	}
	bodyFields, err := vfWalk(body)
	if err != nil {
		return "payload is not a well-formed protobuf encoding: " + err.Error(), labels
	}
	if len(fields) != len(bodyFields)+1 {
		return fmt.Sprintf("output has %d top-level fields, payload %d: want exactly one extra field", len(fields), len(bodyFields)), labels
	}
	for i := range bodyFields {
		if !bytes.Equal(fields[i+1].raw, bodyFields[i].raw) {
			return fmt.Sprintf("top-level field #%d of the output differs from the payload", i+1), labels
		}
	}
	mapFree := !vfHasMap(m.ProtoReflect(), 0)
	if mapFree {
		labels["map-free"]++
		std, err := proto.MarshalOptions{Deterministic: true}.Marshal(m)
		if err != nil {
			return "harness: " + err.Error(), labels
		}
		if !bytes.Equal(std, body) {
			return fmt.Sprintf("payload differs from the standard encoding of the message (%d vs %d bytes)", len(body), len(std)), labels
		}
	} else {
		labels["has-multi-entry-map"]++
	}
	// payload alone decodes to the original
	back := m.ProtoReflect().New().Interface()
	if err := proto.Unmarshal(body, back); err != nil || !proto.Equal(back, orig) {
		return fmt.Sprintf("decoding the payload does not give back the message (err=%v)", err), labels
	}
	// whole output through the codec and through a plain parser: equal up to the one unknown field 2047
	for name, dec := range map[string]func([]byte, proto.Message) error{
		"codec":  func(b []byte, v proto.Message) error { return c.Unmarshal(b, v) },
		"parser": func(b []byte, v proto.Message) error { return proto.Unmarshal(b, v) },
	} {
		v := m.ProtoReflect().New().Interface()
		if err := dec(out, v); err != nil {
			return fmt.Sprintf("%s cannot decode the output: %v", name, err), labels
		}
		ownBefore := 0
		{
			o := proto.Clone(orig)
			ownBefore = vfStripChecksum(o)
		}
		removed := vfStripChecksum(v)
		o := proto.Clone(orig)
		vfStripChecksum(o)
		if removed != ownBefore+1 {
			return fmt.Sprintf("%s: decoded message carries %d unknown fields 2047/fixed32, want %d", name, removed, ownBefore+1), labels
		}
		if !proto.Equal(v, o) {
			return fmt.Sprintf("%s: decoded message differs from the original", name), labels
		}
	}
	if len(body) > 4096 {
		labels["large-message"]++
	}
	if len(m.ProtoReflect().GetUnknown()) > 0 {
		labels["with-unknown-fields"]++
	}
	if len(body) == 0 {
		labels["empty-message"]++
	}
	return "", labels
}

// ---- descriptor-driven filler ----------------------------------------------------------------------

func vfGenScalar(rt *rapid.T, fd protoreflect.FieldDescriptor) protoreflect.Value {
	switch fd.Kind() {
	case protoreflect.BoolKind:
		return protoreflect.ValueOfBool(rapid.Bool().Draw(rt, "b"))
	case protoreflect.EnumKind:
		vals := fd.Enum().Values()
		if rapid.IntRange(0, 9).Draw(rt, "unkenum") == 0 {
			return protoreflect.ValueOfEnum(protoreflect.EnumNumber(rapid.Int32().Draw(rt, "enumnum")))
		}
		return protoreflect.ValueOfEnum(vals.Get(rapid.IntRange(0, vals.Len()-1).Draw(rt, "enum")).Number())
	case protoreflect.Int32Kind, protoreflect.Sint32Kind, protoreflect.Sfixed32Kind:
		return protoreflect.ValueOfInt32(rapid.SampledFrom([]int32{0, 1, -1, 127, 128, math.MaxInt32, math.MinInt32}).Draw(rt, "i32"))
	case protoreflect.Int64Kind, protoreflect.Sint64Kind, protoreflect.Sfixed64Kind:
		return protoreflect.ValueOfInt64(rapid.SampledFrom([]int64{0, 1, -1, 1 << 35, math.MaxInt64, math.MinInt64}).Draw(rt, "i64"))
	case protoreflect.Uint32Kind, protoreflect.Fixed32Kind:
		return protoreflect.ValueOfUint32(rapid.SampledFrom([]uint32{0, 1, 300, math.MaxUint32}).Draw(rt, "u32"))
	case protoreflect.Uint64Kind, protoreflect.Fixed64Kind:
		return protoreflect.ValueOfUint64(rapid.SampledFrom([]uint64{0, 1, 1 << 40, math.MaxUint64}).Draw(rt, "u64"))
	case protoreflect.FloatKind:
		return protoreflect.ValueOfFloat32(rapid.SampledFrom([]float32{0, 1.5, -2, float32(math.Inf(1)), math.MaxFloat32}).Draw(rt, "f32"))
	case protoreflect.DoubleKind:
		return protoreflect.ValueOfFloat64(rapid.SampledFrom([]float64{0, 1.5, -2, math.Inf(-1), math.MaxFloat64, math.SmallestNonzeroFloat64}).Draw(rt, "f64"))
	case protoreflect.StringKind:
		return protoreflect.ValueOfString(rapid.SampledFrom([]string{"", "a", "key", "ünï", "type.googleapis.com/google.protobuf.Value", "x\x00y"}).Draw(rt, "s"))
	case protoreflect.BytesKind:
		n := rapid.SampledFrom([]int{0, 1, 3, 17, 300, 70000, 70000, 1 << 21}).Draw(rt, "blen")
		b := make([]byte, n)
		seed := byte(rapid.IntRange(0, 255).Draw(rt, "bseed"))
		for i := range b {
			b[i] = seed + byte(i*7)
		}
		return protoreflect.ValueOfBytes(b)
	}
	return protoreflect.Value{}
}

func vfFillMsg(rt *rapid.T, m protoreflect.Message, depth int) {
	fds := m.Descriptor().Fields()
	for i := 0; i < fds.Len(); i++ {
		fd := fds.Get(i)
		if rapid.IntRange(0, 2).Draw(rt, "present") != 0 && (fd.Cardinality() != protoreflect.Required || rapid.IntRange(0, 9).Draw(rt, "dropRequired") == 0) {
			continue
		}
		if oo := fd.ContainingOneof(); oo != nil && m.WhichOneof(oo) != nil {
			continue
		}
		isMsg := fd.Message() != nil && !fd.IsMap()
		if (isMsg || (fd.IsMap() && fd.MapValue().Message() != nil)) && depth <= 0 {
			continue
		}
		switch {
		case fd.IsMap():
			mp := m.Mutable(fd).Map()
			n := rapid.IntRange(0, 3).Draw(rt, "maplen")
			for j := 0; j < n; j++ {
				k := vfGenScalar(rt, fd.MapKey()).MapKey()
				if fd.MapValue().Message() != nil {
					v := mp.NewValue()
					vfFillMsg(rt, v.Message(), depth-1)
					mp.Set(k, v)
				} else {
					mp.Set(k, vfGenScalar(rt, fd.MapValue()))
				}
			}
		case fd.IsList():
			l := m.Mutable(fd).List()
			n := rapid.IntRange(0, 4).Draw(rt, "listlen")
			if rapid.IntRange(0, 19).Draw(rt, "biglist") == 0 {
				n = rapid.SampledFrom([]int{8, 8, 130, 300}).Draw(rt, "biglen")
			}
			for j := 0; j < n; j++ {
				if isMsg {
					v := l.NewElement()
					vfFillMsg(rt, v.Message(), depth-1)
					l.Append(v)
				} else {
					l.Append(vfGenScalar(rt, fd))
				}
			}
		case isMsg:
			vfFillMsg(rt, m.Mutable(fd).Message(), depth-1)
		default:
			m.Set(fd, vfGenScalar(rt, fd))
		}
	}
	if rapid.IntRange(0, 5).Draw(rt, "unknown") == 0 {
		var u []byte
		n := rapid.IntRange(1, 3).Draw(rt, "nunk")
		for j := 0; j < n; j++ {
			num := protowire.Number(rapid.SampledFrom([]int{1000, 1999, 2047, 2048, 19000 - 1, 536870911}).Draw(rt, "unum"))
			switch rapid.IntRange(0, 3).Draw(rt, "utyp") {
			case 0:
				u = protowire.AppendVarint(protowire.AppendTag(u, num, protowire.VarintType), rapid.Uint64().Draw(rt, "uv"))
			case 1:
				u = protowire.AppendFixed32(protowire.AppendTag(u, num, protowire.Fixed32Type), rapid.Uint32().Draw(rt, "u32v"))
			case 2:
				u = protowire.AppendFixed64(protowire.AppendTag(u, num, protowire.Fixed64Type), rapid.Uint64().Draw(rt, "u64v"))
			default:
				u = protowire.AppendBytes(protowire.AppendTag(u, num, protowire.BytesType), []byte("unknown-bytes"))
			}
		}
		m.SetUnknown(u)
	}
}

func vfGenMessage(rt *rapid.T) proto.Message {
	root := rapid.SampledFrom(vfRoots).Draw(rt, "root")
	m := root.ProtoReflect().New()
	vfFillMsg(rt, m, rapid.IntRange(0, 5).Draw(rt, "depth"))
	return m.Interface()
}

type vfHeld struct{ out, snap []byte }

var vfRecent []vfHeld

type vfFailingCodec struct{ err error }

func (f vfFailingCodec) Marshal(v interface{}) ([]byte, error)   { return []byte("partial"), f.err }
func (f vfFailingCodec) Unmarshal(b []byte, v interface{}) error { return f.err }
func (f vfFailingCodec) Name() string                            { return "failing" }

func vfCheckErrors() string {
	e := errors.New("underlying codec failed")
	c := &myCodec{protoCodec: vfFailingCodec{e}}
	if _, err := c.Marshal(&structpb.Value{}); err != e {
		return fmt.Sprintf("error of the underlying codec not passed through: %v", err)
	}
	if err := c.Unmarshal([]byte{1}, &structpb.Value{}); err != e {
		return fmt.Sprintf("Unmarshal error of the underlying codec not passed through: %v", err)
	}
	real := &myCodec{protoCodec: encoding.GetCodec(grpcproto.Name)}
	_, werr := encoding.GetCodec(grpcproto.Name).Marshal(42)
	if _, err := real.Marshal(42); err == nil || werr == nil || err.Error() != werr.Error() {
		return fmt.Sprintf("non-proto value: codec error %v, underlying codec error %v", err, werr)
	}
	return ""
}

func vfRunOne(m proto.Message) (*vfCodecCase, string, map[string]int) {
	std, _ := proto.MarshalOptions{Deterministic: true}.Marshal(m)
	c := &vfCodecCase{Type: string(m.ProtoReflect().Descriptor().FullName()), Wire: hex.EncodeToString(std)}
	f, l := vfCheckCodec(m)
	return c, f, l
}

func vfFromCase(c *vfCodecCase) (proto.Message, error) {
	mt, err := protoregistry.GlobalTypes.FindMessageByName(protoreflect.FullName(c.Type))
	if err != nil {
		return nil, err
	}
	b, err := hex.DecodeString(c.Wire)
	if err != nil {
		return nil, err
	}
	m := mt.New().Interface()
	return m, proto.Unmarshal(b, m)
}

func TestC19(t *testing.T) {
	st := hx.For("C19")
	replay := func(p string) {
		var c vfCodecCase
		if err := hx.Load(p, &c); err != nil {
			t.Fatal(err)
		}
		m, err := vfFromCase(&c)
		if err != nil {
			t.Fatalf("%s: %v", p, err)
		}
		cc, f, l := vfRunOne(m)
		for _, r := range vfRoots {
			// later Marshal calls must not disturb the output of the replayed one
			if f == "" {
				_, f, _ = vfRunOne(r.ProtoReflect().New().Interface())
			}
		}
		if f != "" {
			cc.Failure, cc.Property = f, "C19"
			hx.WriteReplay("C19", cc)
			t.Fatalf("%s: %s", p, f)
		}
		st.Case(1, l, true, cc)
	}
	if p := hx.ReplayIn(); p != "" {
		replay(p)
		return
	}
	for _, p := range hx.Corpus("C19") {
		replay(p)
		st.Label("corpus-replayed", 1)
	}
	if f := vfCheckErrors(); f != "" {
		hx.WriteReplay("C19", map[string]string{"property": "C19", "failure": f})
		t.Fatal(f)
	}
	for _, r := range vfRoots { // every root type empty
		if _, f, _ := vfRunOne(r.ProtoReflect().New().Interface()); f != "" {
			t.Fatalf("empty %T: %s", r, f)
		}
		st.AddCases(1)
	}
	rapid.Check(t, func(rt *rapid.T) {
		m := vfGenMessage(rt)
		c, f, l := vfRunOne(m)
		if f != "" {
			st.Failed()
			c.Failure, c.Property = f, "C19"
			hx.WriteReplay("C19", c)
			rt.Fatalf("%s: %s", c.Type, f)
		}
		l["type-"+c.Type]++
		st.Case(1, l, len(c.Wire) > 8, c)
	})
}

// FuzzC19 decodes arbitrary bytes into a drawn root type and runs the same oracle (thorough tier).
func FuzzC19(f *testing.F) {
	f.Add(uint8(0), []byte{0x0a, 0x00})
	f.Add(uint8(6), []byte{})
	f.Fuzz(func(t *testing.T, which uint8, data []byte) {
		m := vfRoots[int(which)%len(vfRoots)].ProtoReflect().New().Interface()
		if proto.Unmarshal(data, m) != nil {
			return
		}
		c, fl, _ := vfRunOne(m)
		if fl != "" {
			c.Failure, c.Property = fl, "C19"
			hx.WriteReplay("C19", c)
			t.Fatal(fl)
		}
	})
}
