//go:build verif

package main

import (
	"fmt"
	"math"
	"os"
	"sort"
	"strings"
	"testing"

	proberlib "spanner_prober/prober"

	"pgregory.net/rapid"
	"VERIFHX_IMPORT"
)

func TestMain(m *testing.M) {
	code := m.Run()
	hx.Flush()
	os.Exit(code)
}

type vfFlagCase struct {
	Property       string  `json:"property,omitempty"`
	Kind           string  `json:"kind"`
	Project        string  `json:"project"`
	OpsProject     string  `json:"opsProject"`
	Instance       string  `json:"instance"`
	Database       string  `json:"database"`
	InstanceConfig string  `json:"instanceConfig"`
	QPSBits        uint64  `json:"qpsBits"`
	QPS            string  `json:"qps"`
	NumRows        int     `json:"numRows"`
	PayloadSize    int     `json:"payloadSize"`
	ProbeType      string  `json:"probeType"`
	// Before: a flag set used earlier in the same process (checked first): what one target yields must not depend on the
	// targets that were used before it
	Before  *vfFlagCase `json:"usedBefore,omitempty"`
	Failure string      `json:"failure,omitempty"`
}

func vfCheckFlags(c *vfFlagCase) (failure string, accepted bool) {
	if c.Before != nil {
		if f, _ := vfCheckFlags(c.Before); f != "" {
			return "flag set used before: " + f, false
		}
	}
	q := math.Float64frombits(c.QPSBits)
	*project, *opsProject, *instance_name, *database_name, *instanceConfig = c.Project, c.OpsProject, c.Instance, c.Database, c.InstanceConfig
	*qps, *numRows, *payloadSize, *probeType = q, c.NumRows, c.PayloadSize, c.ProbeType
	var errs []error
	var p interface{}
	func() {
		defer func() { p = recover() }()
		errs = validateFlags()
	}()
	if p != nil {
		return fmt.Sprintf("validateFlags panicked: %v", p), false
	}
	if len(errs) > 0 {
		return "", false
	}
	// accepted: everything derived from the flags must be sane
	if _, err := proberlib.ParseProbeType(c.ProbeType); err != nil {
		return fmt.Sprintf("accepted flag set has an unparsable probe type %q: %v", c.ProbeType, err), true
	}
	if iv := proberlib.VerifProbeInterval(q); iv <= 0 {
		return fmt.Sprintf("accepted qps=%v yields probe interval %v (must be strictly positive)", q, iv), true
	}
	opts := proberlib.ProberOptions{Project: c.Project, Instance: c.Instance, Database: c.Database, InstanceConfig: c.InstanceConfig, QPS: q}
	want := map[string][]string{
		"instance":       {"projects", c.Project, "instances", c.Instance},
		"instanceConfig": {"projects", c.Project, "instanceConfigs", c.InstanceConfig},
		"project":        {"projects", c.Project},
		"database":       {"projects", c.Project, "instances", c.Instance, "databases", c.Database},
	}
	for name, uri := range proberlib.VerifURIs(opts) {
		segs := strings.Split(uri, "/")
		w := want[name]
		if len(segs) != len(w) {
			return fmt.Sprintf("accepted flags yield %s name %q with %d path segments, want exactly %v", name, uri, len(segs), w), true
		}
		for i := range w {
			if segs[i] != w[i] {
				return fmt.Sprintf("accepted flags yield %s name %q: segment %d is %q, want %q", name, uri, i, segs[i], w[i]), true
			}
		}
		if strings.ContainsAny(uri, "\n\r\x00?#") {
			return fmt.Sprintf("accepted flags yield %s name %q containing a control or delimiter character", name, uri), true
		}
	}
	return "", true
}

var vfQpsPool = []float64{1, 1, 0.5, 1000, 1000.0001, 999.9999, 0, -1, -0.0, 1e-300, 5e-324, 1e-10, 1.1e-10, 1.0842e-10, 1.0843e-10, 1e-9, math.NaN(), math.Inf(1), math.Inf(-1), math.MaxFloat64, 2.2250738585072014e-308}

func vfGenName(rt *rapid.T, label string) string {
	switch rapid.IntRange(0, 29).Draw(rt, label+"class") {
	case 0:
		return ""
	case 1:
		return rapid.SampledFrom([]string{"a/b", "..", "../x", "a\nb", "a\n", "\n", "a b", "ü", "a\x00", "projects/x", "a?b", "a#b", "a%2Fb", "/", "a/", "-", ".", ":", "_", "a:b"}).Draw(rt, label+"odd")
	case 2:
		// a valid name with one hostile character spliced in
		s := rapid.StringMatching(`[-_.a-zA-Z0-9]{1,8}`).Draw(rt, label+"base")
		h := rapid.SampledFrom([]string{"/", "\n", " ", "é", "..", "\t", "\\", "$", "^"}).Draw(rt, label+"h")
		i := rapid.IntRange(0, len(s)).Draw(rt, label+"pos")
		return s[:i] + h + s[i:]
	}
	if rapid.IntRange(0, 29).Draw(rt, label+"long") == 0 {
		return rapid.StringMatching(`[-_.a-zA-Z0-9]{200,400}`).Draw(rt, label+"longv")
	}
	return rapid.StringMatching(`[-_.a-zA-Z0-9]{1,12}`).Draw(rt, label)
}

func vfGenFlags(rt *rapid.T) *vfFlagCase {
	q := rapid.SampledFrom(vfQpsPool).Draw(rt, "qps")
	switch rapid.IntRange(0, 5).Draw(rt, "qpsrand") {
	case 0:
		q = rapid.Float64().Draw(rt, "qpsany")
	case 1, 2, 3:
		q = rapid.Float64Range(1e-10, 1000).Draw(rt, "qpsvalid")
	}
	c := &vfFlagCase{Kind: "flags", Project: vfGenName(rt, "project"), OpsProject: vfGenName(rt, "ops"), Instance: vfGenName(rt, "instance"), Database: vfGenName(rt, "database"), InstanceConfig: vfGenName(rt, "cfg"),
		QPSBits: math.Float64bits(q), QPS: fmt.Sprint(q), NumRows: rapid.SampledFrom([]int{1, 1, 1, 1000, 1000, 5, 0, -1, math.MaxInt32}).Draw(rt, "rows"), PayloadSize: rapid.SampledFrom([]int{1, 1024, 1024, 7, 0, -1}).Draw(rt, "payload"),
		ProbeType: rapid.SampledFrom([]string{"noop", "noop", "noop", "stale_read", "stale_read", "strong_query", "strong_query", "stale_query", "stale_query", "dml", "dml", "read_write", "read_write", "", "NOOP", "noop ", "nope"}).Draw(rt, "ptype")}
	if rapid.IntRange(0, 2).Draw(rt, "project-colon") == 0 {
		c.Project = "google.com:" + rapid.StringMatching(`[a-z]{1,6}`).Draw(rt, "pc")
	}
	if rapid.IntRange(0, 3).Draw(rt, "twosets") == 0 {
		// two targets in one process whose names consist of the same pieces cut at different places: the same text when the
		// four values are written one after the other with the separator between them
		sep := rapid.SampledFrom([]string{".", ".", "-", "_", "", ":"}).Draw(rt, "sep")
		n := rapid.IntRange(5, 7).Draw(rt, "pieces")
		toks := make([]string, n)
		for i := range toks {
			toks[i] = rapid.StringMatching(`[a-z][a-z0-9]{0,3}`).Draw(rt, "piece")
		}
		split := func(label string) [4]string {
			// three cut positions 0 < a < b < c < n
			cuts := rapid.SliceOfNDistinct(rapid.IntRange(1, n-1), 3, 3, rapid.ID[int]).Draw(rt, label)
			sort.Ints(cuts)
			return [4]string{strings.Join(toks[:cuts[0]], sep), strings.Join(toks[cuts[0]:cuts[1]], sep), strings.Join(toks[cuts[1]:cuts[2]], sep), strings.Join(toks[cuts[2]:], sep)}
		}
		order := rapid.Permutation([]int{0, 1, 2, 3}).Draw(rt, "fieldorder")
		if rapid.IntRange(0, 2).Draw(rt, "declorder") != 0 {
			order = []int{0, 1, 2, 3}
		}
		set := func(x *vfFlagCase, v [4]string) {
			dst := []*string{&x.Project, &x.Instance, &x.InstanceConfig, &x.Database}
			for i, o := range order {
				*dst[o] = v[i]
			}
		}
		b := *c
		set(&b, split("cutsBefore"))
		set(c, split("cuts"))
		c.Before = &b
	}
	return c
}

func TestC18Flags(t *testing.T) {
	st := hx.For("C18")
	run := func(c *vfFlagCase) string {
		f, acc := vfCheckFlags(c)
		if f != "" {
			st.Failed()
			c.Failure, c.Property = f, "C18"
			hx.WriteReplay("C18", c)
			return f
		}
		l := map[string]int{"flags": 1}
		if c.Before != nil {
			l["two-flag-sets-from-the-same-pieces-in-one-process"] = 1
		}
		if acc {
			l["flags-accepted"] = 1
		} else {
			l["flags-rejected"] = 1
		}
		st.Case(1, l, acc, c)
		return ""
	}
	if p := hx.ReplayIn(); p != "" {
		var c vfFlagCase
		if err := hx.Load(p, &c); err != nil {
			t.Fatal(err)
		}
		if c.Kind != "flags" {
			t.Skip("not a flags case")
		}
		if f := run(&c); f != "" {
			t.Fatalf("replay: %s", f)
		}
		return
	}
	for _, p := range hx.Corpus("C18") {
		var c vfFlagCase
		if hx.Load(p, &c) == nil && c.Kind == "flags" {
			c.Failure = ""
			if f := run(&c); f != "" {
				t.Fatalf("corpus %s: %s", p, f)
			}
			st.Label("corpus-replayed", 1)
		}
	}
	rapid.Check(t, func(rt *rapid.T) {
		if f := run(vfGenFlags(rt)); f != "" {
			rt.Fatalf("%s", f)
		}
	})
}

// FuzzFlags feeds arbitrary strings and qps bit patterns (thorough tier).
func FuzzFlags(f *testing.F) {
	f.Add("google.com:abc", "abc", "abc", "regional-test-1", uint64(0x3ff0000000000000), "noop")
	f.Add("a/b", "x\n", "..", "", uint64(1), "noop")
	f.Fuzz(func(t *testing.T, p, i, d, ic string, bits uint64, pt string) {
		c := &vfFlagCase{Kind: "flags", Project: p, Instance: i, Database: d, InstanceConfig: ic, QPSBits: bits, NumRows: 1, PayloadSize: 1, ProbeType: pt}
		if f, _ := vfCheckFlags(c); f != "" {
			c.Failure, c.Property = f, "C18"
			hx.WriteReplay("C18", c)
			t.Fatal(f)
		}
	})
}
