//go:build verif

package prober

import (
	"crypto/sha256"
	"bytes"
	"fmt"
	"math"
	"os"
	"strings"
	"testing"
	"time"

	"google.golang.org/grpc/metadata"
	"pgregory.net/rapid"
	"VERIFHX_IMPORT"
)

func TestMain(m *testing.M) {
	code := m.Run()
	hx.Flush()
	os.Exit(code)
}

// ---- backoff ---------------------------------------------------------------------------------

type vfBackoffCase struct {
	Property string `json:"property,omitempty"`
	Kind     string `json:"kind"`
	Base     int64  `json:"base"`
	Max      int64  `json:"max"`
	R1, R2   int    `json:"-"`
	Retries  []int  `json:"retries"`
	Failure  string `json:"failure,omitempty"`
}

func vfCheckBackoff(c *vfBackoffCase) string {
	prev := time.Duration(-1)
	prevR := -1
	for _, r := range c.Retries {
		var b time.Duration
		var p interface{}
		done := make(chan struct{})
		go func() {
			defer close(done)
			defer func() { p = recover() }()
			b = backoff(time.Duration(c.Base), time.Duration(c.Max), r)
		}()
		select {
		case <-done:
		case <-time.After(20 * time.Second): // the computation takes nanoseconds, microseconds for the largest counts that matter
			return fmt.Sprintf("backoff(base=%d,max=%d,retries=%d) has not returned after 20 s of real time", c.Base, c.Max, r)
		}
		if p != nil {
			return fmt.Sprintf("backoff(%d,%d,%d) panicked: %v", c.Base, c.Max, r, p)
		}
		if int64(b) < c.Base {
			return fmt.Sprintf("backoff(base=%d,max=%d,retries=%d) = %d < base", c.Base, c.Max, r, int64(b))
		}
		if int64(b) > c.Max {
			return fmt.Sprintf("backoff(base=%d,max=%d,retries=%d) = %d > max", c.Base, c.Max, r, int64(b))
		}
		if prevR >= 0 && r >= prevR && b < prev {
			return fmt.Sprintf("backoff(base=%d,max=%d) decreases: retries=%d -> %d, retries=%d -> %d", c.Base, c.Max, prevR, int64(prev), r, int64(b))
		}
		prev, prevR = b, r
	}
	return ""
}

func vfGenBackoff(rt *rapid.T) *vfBackoffCase {
	var max int64
	switch rapid.IntRange(0, 5).Draw(rt, "maxclass") {
	case 0:
		max = rapid.Int64Range(0, 1000).Draw(rt, "maxsmall")
	case 1:
		max = rapid.Int64Range(0, int64(time.Hour)).Draw(rt, "maxmid")
	case 2:
		max = rapid.Int64Range(1<<53-2, 1<<53+1000).Draw(rt, "max53")
	case 3:
		max = rapid.Int64Range(math.MaxInt64-2000, math.MaxInt64).Draw(rt, "maxtop")
	default:
		max = rapid.Int64Range(0, math.MaxInt64).Draw(rt, "maxany")
	}
	var base int64
	switch rapid.IntRange(0, 4).Draw(rt, "baseclass") {
	case 0:
		base = max
	case 1:
		base = rapid.Int64Range(0, max).Draw(rt, "baseany")
	case 2:
		base = max - rapid.Int64Range(0, vfMin64(max, 3000)).Draw(rt, "basenear")
	case 3:
		base = rapid.Int64Range(0, vfMin64(max, 5)).Draw(rt, "basetiny")
	default:
		base = max/3*2 + rapid.Int64Range(0, vfMin64(max/3, 7)).Draw(rt, "basetwothirds")
	}
	if rapid.IntRange(0, 19).Draw(rt, "negbase") == 0 {
		base = -rapid.Int64Range(0, 1<<40).Draw(rt, "basenegative") // "base <= max" also holds for these
	}
	c := &vfBackoffCase{Kind: "backoff", Base: base, Max: max}
	n := rapid.IntRange(1, 6).Draw(rt, "n")
	r := 0
	for i := 0; i < n; i++ {
		step := rapid.SampledFrom([]int{0, 1, 1, 2, 5, 40, 200}).Draw(rt, "step")
		if base > 0 && rapid.IntRange(0, 9).Draw(rt, "huge") == 0 {
			step = rapid.IntRange(1000, 1<<62).Draw(rt, "hugestep")
		}
		if base <= 0 && rapid.IntRange(0, 2).Draw(rt, "manyzero") == 0 {
			// base <= 0: the delay never grows; every count must still give an answer at once
			step = rapid.SampledFrom([]int{1000, 1750, 1751, 2000, 50000, 1000000, 1 << 40, 1<<62 - 1}).Draw(rt, "zerostep")
		}
		if r+step < r {
			break
		}
		r += step
		c.Retries = append(c.Retries, r)
	}
	return c
}

func vfMin64(a, b int64) int64 {
	if a < b {
		return a
	}
	return b
}

// ---- GFE latency header ---------------------------------------------------------------------

type vfT4t7Case struct {
	Property string   `json:"property,omitempty"`
	Kind     string   `json:"kind"`
	Headers  []string `json:"headers"`
	HasH     bool     `json:"hasHeaders"`
	Trailers []string `json:"trailers"`
	HasT     bool     `json:"hasTrailers"`
	Failure  string   `json:"failure,omitempty"`
}

// vfRefT4T7 is written from the statement: the header list wins when it has entries, the first
// gfet4t7 entry decides, malformed or absent is an error.
func vfRefT4T7(c *vfT4t7Case) (ms int64, ok bool) {
	list := c.Trailers
	if c.HasH && len(c.Headers) > 0 {
		list = c.Headers
	} else if !(c.HasT && len(c.Trailers) > 0) {
		return 0, false
	}
	const prefix = "gfet4t7; dur="
	for _, e := range list {
		if !strings.HasPrefix(e, prefix) {
			continue
		}
		t := e[len(prefix):]
		neg := false
		if strings.HasPrefix(t, "-") || strings.HasPrefix(t, "+") {
			neg = t[0] == '-'
			t = t[1:]
		}
		if t == "" {
			return 0, false
		}
		var v uint64
		for _, ch := range t {
			if ch < '0' || ch > '9' {
				return 0, false
			}
			if v > (math.MaxUint64-9)/10 {
				return 0, false
			}
			v = v*10 + uint64(ch-'0')
		}
		if neg {
			if v > 1<<63 {
				return 0, false
			}
			return -int64(v), true
		}
		if v > math.MaxInt64 {
			return 0, false
		}
		return int64(v), true
	}
	return 0, false
}

func vfCheckT4T7(c *vfT4t7Case) string {
	h, t := metadata.MD{}, metadata.MD{}
	if c.HasH {
		h["server-timing"] = c.Headers
	}
	if c.HasT {
		t["server-timing"] = c.Trailers
	}
	var d time.Duration
	var err error
	var p interface{}
	func() {
		defer func() { p = recover() }()
		d, err = parseT4T7Latency(h, t)
	}()
	if p != nil {
		return fmt.Sprintf("parseT4T7Latency panicked on %q / %q: %v", c.Headers, c.Trailers, p)
	}
	ms, ok := vfRefT4T7(c)
	if ok && (ms > math.MaxInt64/1000000 || ms < math.MinInt64/1000000) {
		ok = false // does not fit a Duration: neither "the duration of the entry" nor anything else can be returned
	}
	if ok != (err == nil) {
		return fmt.Sprintf("parseT4T7Latency(headers=%q present=%v, trailers=%q present=%v): err=%v, the reference says ok=%v", c.Headers, c.HasH, c.Trailers, c.HasT, err, ok)
	}
	if ok && d != time.Duration(ms)*time.Millisecond {
		return fmt.Sprintf("parseT4T7Latency(headers=%q, trailers=%q) = %v, want %d ms", c.Headers, c.Trailers, d, ms)
	}
	return ""
}

var vfEntryPool = []string{"gfet4t7; dur=9223372036854", "gfet4t7; dur=9223372036855", "gfet4t7; dur=-9223372036854", "gfet4t7; dur=-9223372036855", "gfet4t7; dur=18446744073710", "gfet4t7; dur=12", "gfet4t7; dur=0", "gfet4t7; dur=-3", "gfet4t7; dur=+7", "gfet4t7; dur=", "gfet4t7; dur= 5", "gfet4t7; dur=5 ", "gfet4t7; dur=1.5", "gfet4t7; dur=9223372036854775807",
	"gfet4t7; dur=9223372036854775808", "gfet4t7; dur=99999999999999999999999", "gfet4t7; dur=00000000000000000000000000", "gfet4t7; dur=-0000000000000000000000000007", "gfet4t7; dur=0x10", "gfet4t7; dur=1_000", "gfet4t7;dur=4", "GFET4T7; dur=4", "other; dur=9", "", "gfet4t7", "gfet4t7; dur=٣", "gfet4t7; dur=12, x"}

func vfGenT4T7(rt *rapid.T) *vfT4t7Case {
	list := func(label string) []string {
		n := rapid.IntRange(0, 4).Draw(rt, label+"n")
		if rapid.IntRange(0, 29).Draw(rt, label+"many") == 0 {
			n = rapid.IntRange(20, 80).Draw(rt, label+"nmany")
		}
		var l []string
		for i := 0; i < n; i++ {
			if rapid.IntRange(0, 5).Draw(rt, label+"rand") == 0 {
				l = append(l, "gfet4t7; dur="+rapid.StringMatching(`[-+]?[0-9]{0,20}[ a-z.]?`).Draw(rt, label+"v"))
			} else {
				l = append(l, rapid.SampledFrom(vfEntryPool).Draw(rt, label+"e"))
			}
		}
		return l
	}
	return &vfT4t7Case{Kind: "t4t7", HasH: rapid.Bool().Draw(rt, "hasH"), Headers: list("h"), HasT: rapid.Bool().Draw(rt, "hasT"), Trailers: list("t")}
}

// ---- payload -----------------------------------------------------------------------------------

func vfCheckPayload(n int) string {
	p, h, err := generatePayload(n)
	if err != nil {
		return fmt.Sprintf("generatePayload(%d): %v", n, err)
	}
	if len(p) != n {
		return fmt.Sprintf("generatePayload(%d) returned %d bytes", n, len(p))
	}
	want := sha256.Sum256(p)
	if !bytes.Equal(h, want[:]) {
		return fmt.Sprintf("generatePayload(%d): hash %x, SHA-256 of the payload is %x", n, h, want)
	}
	// "generated payloads carry their SHA-256 hash": pairs handed out earlier still do after later calls
	for _, k := range vfKept {
		if w := sha256.Sum256(k.p); !bytes.Equal(k.h, w[:]) {
			return fmt.Sprintf("a (payload, hash) pair returned by an earlier generatePayload(%d) no longer matches after generatePayload(%d): hash is now %x, SHA-256 of its payload is %x", len(k.p), n, k.h, w)
		}
	}
	if n <= 1<<16 {
		vfKept = append(vfKept, vfPair{p, h})
		if len(vfKept) > 4 {
			vfKept = vfKept[1:]
		}
	}
	return ""
}

// vfPayloadCase: consecutive generatePayload calls; every pair is kept and re-checked after the later calls.
type vfPayloadCase struct {
	Property string `json:"property,omitempty"`
	Kind     string `json:"kind"`
	Sizes    []int  `json:"sizes"`
	Failure  string `json:"failure,omitempty"`
}

func vfCheckPayloads(c *vfPayloadCase) string {
	vfKept = nil
	for _, n := range c.Sizes {
		if f := vfCheckPayload(n); f != "" {
			return f
		}
	}
	return ""
}

type vfPair struct{ p, h []byte }

var vfKept []vfPair

type vfAnyCase struct {
	Kind string `json:"kind"`
}

func TestC18Prober(t *testing.T) {
	st := hx.For("C18")
	if p := hx.ReplayIn(); p != "" {
		var k vfAnyCase
		if err := hx.Load(p, &k); err != nil {
			t.Fatal(err)
		}
		switch k.Kind {
		case "backoff":
			var c vfBackoffCase
			hx.Load(p, &c)
			if f := vfCheckBackoff(&c); f != "" {
				t.Fatalf("replay: %s", f)
			}
		case "t4t7":
			var c vfT4t7Case
			hx.Load(p, &c)
			if f := vfCheckT4T7(&c); f != "" {
				t.Fatalf("replay: %s", f)
			}
		case "payload":
			var c vfPayloadCase
			hx.Load(p, &c)
			if f := vfCheckPayloads(&c); f != "" {
				t.Fatalf("replay: %s", f)
			}
		default:
			t.Skip("not a prober-package case")
		}
		st.Case(1, nil, true, &k)
		return
	}
	for _, p := range hx.Corpus("C18") {
		var k vfAnyCase
		if hx.Load(p, &k) != nil {
			continue
		}
		switch k.Kind {
		case "backoff":
			var c vfBackoffCase
			hx.Load(p, &c)
			if f := vfCheckBackoff(&c); f != "" {
				t.Fatalf("corpus %s: %s", p, f)
			}
			st.Label("corpus-replayed", 1)
		case "t4t7":
			var c vfT4t7Case
			hx.Load(p, &c)
			if f := vfCheckT4T7(&c); f != "" {
				t.Fatalf("corpus %s: %s", p, f)
			}
			st.Label("corpus-replayed", 1)
		}
	}
	for _, n := range []int{1, 2, 31, 32, 33, 1024, 65536, 1 << 20} {
		if f := vfCheckPayload(n); f != "" {
			t.Fatal(f)
		}
		st.AddCases(1)
		st.Label("payload-sizes", 1)
	}
	rapid.Check(t, func(rt *rapid.T) {
		switch rapid.IntRange(0, 9).Draw(rt, "which") {
		case 0:
			c := &vfPayloadCase{Kind: "payload", Sizes: rapid.SliceOfN(rapid.IntRange(1, 1<<16), 1, 4).Draw(rt, "payloads")}
			if f := vfCheckPayloads(c); f != "" {
				st.Failed()
				c.Failure, c.Property = f, "C18"
				hx.WriteReplay("C18", c)
				rt.Fatalf("%s", f)
			}
			st.Case(len(c.Sizes), map[string]int{"payload": len(c.Sizes)}, false, nil)
		case 1, 2, 3, 4:
			c := vfGenBackoff(rt)
			if f := vfCheckBackoff(c); f != "" {
				st.Failed()
				c.Failure, c.Property = f, "C18"
				hx.WriteReplay("C18", c)
				rt.Fatalf("%s", f)
			}
			l := map[string]int{"backoff": 1}
			if c.Max > 1<<53 {
				l["backoff-above-2^53ns"] = 1
			}
			if c.Base == c.Max {
				l["backoff-base-equals-max"] = 1
			}
			st.Case(len(c.Retries), l, len(c.Retries) >= 2 && c.Base > 0, c)
		default:
			c := vfGenT4T7(rt)
			if f := vfCheckT4T7(c); f != "" {
				st.Failed()
				c.Failure, c.Property = f, "C18"
				hx.WriteReplay("C18", c)
				rt.Fatalf("%s", f)
			}
			_, ok := vfRefT4T7(c)
			l := map[string]int{"t4t7": 1}
			if ok {
				l["t4t7-ok"] = 1
			} else {
				l["t4t7-error"] = 1
			}
			if c.HasH && len(c.Headers) > 0 && c.HasT && len(c.Trailers) > 0 {
				l["t4t7-both-present"] = 1
			}
			st.Case(1, l, len(c.Headers)+len(c.Trailers) >= 2, c)
		}
	})
}

// FuzzT4T7 feeds arbitrary header values (thorough tier).
func FuzzT4T7(f *testing.F) {
	f.Add("gfet4t7; dur=12", "x", true, true)
	f.Add("gfet4t7; dur=-9223372036854775808", "gfet4t7; dur=1", true, false)
	f.Fuzz(func(t *testing.T, a, b string, hh, ht bool) {
		c := &vfT4t7Case{Kind: "t4t7", Headers: []string{a, b}, HasH: hh, Trailers: []string{b, a}, HasT: ht}
		if f := vfCheckT4T7(c); f != "" {
			c.Failure, c.Property = f, "C18"
			hx.WriteReplay("C18", c)
			t.Fatal(f)
		}
	})
}
