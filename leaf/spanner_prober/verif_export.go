//go:build verif

package prober

import "time"

// VerifURIs returns every Spanner resource name the prober derives from the options.
func VerifURIs(opt ProberOptions) map[string]string {
	return map[string]string{
		"instance":       opt.instanceURI(),
		"instanceConfig": opt.instanceConfigURI(),
		"project":        opt.projectURI(),
		"database":       opt.databaseURI(),
	}
}

// VerifProbeInterval returns the ticker interval used for the given qps.
func VerifProbeInterval(qps float64) time.Duration {
	return (&Prober{qps: qps}).probeInterval()
}
