#!/bin/sh
# Builds the harness once (warms the build cache) from files on disk only.
cd "$(dirname "$0")" || exit 1
export GOFLAGS=-mod=mod GOPROXY=off GOSUMDB=off GOTOOLCHAIN=local
mkdir -p build evidence replays
python3 lib/warm.py
