#!/usr/bin/env python3
"""Confirm a seeded change delivered by a sub-agent and store it under /verif/seeded/<id>/.

usage: tools/confirm_seeded.py <id> [<id> ...]     (reads /tmp/mutout/<id>/{patch.diff,demo_test.go,meta.json})

In a scratch worktree of /repo HEAD (removed afterwards): the demonstration must pass without the
change and fail with it; the module's existing tests must pass with the change.
"""
import json, os, re, shutil, subprocess, sys, tempfile, time
ENV = dict(os.environ, GOFLAGS="-mod=mod", GOPROXY="off", GOSUMDB="off", GOTOOLCHAIN="local")

def sh(cmd, cwd, timeout=900):
    r = subprocess.run(cmd, cwd=cwd, env=ENV, shell=True, capture_output=True, text=True, timeout=timeout)
    return r.returncode, (r.stdout + r.stderr)

def demo_dir(src, patch):
    m = re.search(r'^package (\w+)', src, re.M)
    pkg = m.group(1) if m else "grpcgcp"
    if pkg == "multiendpoint": return "grpcgcp/multiendpoint"
    if pkg in ("grpcgcp", "grpcgcp_test"): return "grpcgcp"
    if pkg == "prober": return "spanner_prober/prober"
    if pkg == "test_grpc": return "grpcgcp/test_grpc"
    if pkg == "main": return "e2e-checksum" if "e2e-checksum" in patch else "spanner_prober"
    return "grpcgcp"

def suite(mod_dir):
    if mod_dir.startswith("grpcgcp"): return "grpcgcp", "go test -vet=off -count=1 . ./multiendpoint", "go test -vet=off -count=1 ./test_grpc"
    if mod_dir.startswith("spanner_prober"): return "spanner_prober", "go test -vet=off -count=1 ./... 2>&1 | grep -v invalid_options", None
    return mod_dir.split("/")[0], "go test -vet=off -count=1 ./...", None

def main():
    for mid in sys.argv[1:]:
        src = "/tmp/mutout/" + mid
        patch = open(src + "/patch.diff").read()
        demo = open(src + "/demo_test.go").read()
        meta = json.load(open(src + "/meta.json"))
        d = tempfile.mkdtemp(prefix="cs_", dir="/tmp"); os.rmdir(d)
        subprocess.check_call(["git", "-C", "/repo", "worktree", "add", "-q", "--detach", d, "HEAD"])
        ran = []
        ok = True
        try:
            dd = demo_dir(demo, patch)
            mod, quick, slow = suite(dd)
            if os.environ.get("CONFIRM_FAST"):
                slow = None  # ./test_grpc (fixed TCP port, ~40 s) was run by the sub-agent that produced the change; not repeated here
            dst = os.path.join(d, dd, "zz_seeded_demo_test.go")
            shutil.copy(src + "/demo_test.go", dst)
            rel = "./" + os.path.relpath(os.path.join(d, dd), os.path.join(d, mod))
            race = "-race " if mid.startswith("C10") else ""
            rc0, out0 = sh("go test %s-vet=off -count=1 -run 'Demo' %s" % (race, rel), os.path.join(d, mod))
            ran.append("demo without change: rc=%d" % rc0)
            rc, out = sh("git apply %s/patch.diff" % src, d)
            if rc != 0:
                ran.append("patch does not apply: " + out[-300:]); ok = False
            else:
                rc1, out1 = sh("go test %s-vet=off -count=1 -run 'Demo' %s" % (race, rel), os.path.join(d, mod))
                ran.append("demo with change: rc=%d %s" % (rc1, " | ".join(l.strip() for l in out1.splitlines() if "---" in l or "demo" in l.lower())[:400]))
                os.remove(dst)
                for qa in range(3):  # the suite has timing-sensitive tests: a change passes if one of three runs passes
                    rc2, out2 = sh("go build ./... && " + quick, os.path.join(d, mod))
                    if rc2 == 0 or "TestValidFlags" in out2:
                        break
                fails = [l for l in out2.splitlines() if l.startswith("--- FAIL") or l.startswith("FAIL")]
                if mod == "spanner_prober":
                    fails = [l for l in fails if "TestValidFlags" not in l and l.strip() not in ("FAIL", "FAIL\tspanner_prober") and not l.startswith("FAIL\tspanner_prober\t")]
                    rc2 = 1 if fails else 0
                ran.append("existing suite with change (%s): rc=%d %s" % (quick, rc2, ";".join(fails)[:300]))
                rc3 = 0
                if slow:
                    for attempt in range(14):
                        rc3, out3 = sh(slow, os.path.join(d, mod))
                        hard = "connection refused" not in out3 and "address already in use" not in out3
                        if rc3 == 0 or (hard and attempt >= 3):
                            break  # the package has timing-sensitive tests of its own: a change passes if one of a few runs passes
                        time.sleep(10)
                    ran.append("%s with change: rc=%d (attempts %d)" % (slow, rc3, attempt + 1))
                ok = ok and rc0 == 0 and rc1 != 0 and rc2 == 0 and rc3 == 0
        finally:
            subprocess.call(["git", "-C", "/repo", "worktree", "remove", "--force", d])
        meta["confirmed_by_verif"] = {"ok": ok, "ran": ran, "repo_head": subprocess.check_output(["git", "-C", "/repo", "rev-parse", "--short", "HEAD"], text=True).strip()}
        print(mid, "CONFIRMED" if ok else "REJECTED", ran)
        out = "/verif/seeded/" + mid
        if ok:
            os.makedirs(out, exist_ok=True)
            shutil.copy(src + "/patch.diff", out); shutil.copy(src + "/demo_test.go", out)
            json.dump(meta, open(out + "/meta.json", "w"), indent=1)

main()
