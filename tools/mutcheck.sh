#!/bin/sh
# usage: tools/mutcheck.sh <patch.diff> <prop> [tier] [seed]   -- applies the patch to a scratch worktree of /repo HEAD and runs the check against it
P=$(readlink -f "$1"); PROP=$2; TIER=${3:-quick}; SEED=${4:-1}
D=$(mktemp -d /tmp/mc_XXXXXX); rmdir "$D"
git -C /repo worktree add -q --detach "$D" HEAD || exit 9
if ! git -C "$D" apply "$P" 2>/dev/null && ! { git -C "$D" reset -q --hard; git -C "$D" apply -3 "$P" >/dev/null 2>&1 && [ -z "$(git -C "$D" diff --name-only --diff-filter=U)" ] && git -C "$D" reset -q; }; then echo "PATCH DOES NOT APPLY: $P"; git -C /repo worktree remove --force "$D"; exit 9; fi
cd "$(dirname "$0")/.." && VERIF_SEED=$SEED VERIF_NO_EVIDENCE=1 VERIF_REPO="$D" ./check "$PROP" --tier "$TIER" > "$D.out" 2>&1
grep -E "^(VIOLATION|OK prop|INCONCLUSIVE)" "$D.out" | cut -c1-300 | head -2; grep -E "rule " "$D.out" | cut -c1-300 | head -2; rm -f "$D.out"
git -C /repo worktree remove --force "$D"
