#!/bin/sh
# Runs the quick check of its property against every confirmed seeded change; writes seeded/RESULTS.txt
cd "$(dirname "$0")/.." || exit 1
OUT=seeded/RESULTS.txt; : > $OUT.tmp
for d in seeded/C*/; do
  id=$(basename $d); prop=${id%-*}
  r=$(tools/mutcheck.sh $d/patch.diff $prop quick ${1:-1} | grep -E "^(VIOLATION|OK|INCONCLUSIVE|PATCH)" | head -1 | sed 's/replay=.*//' )
  echo "$id $r" | tee -a $OUT.tmp
done
mv $OUT.tmp $OUT
