#!/bin/sh
# Runs the quick check of its property against every confirmed seeded change at VERIF_SEED=$1 (default 1);
# writes seeded/RESULTS.s<seed>.txt (one line per change: VIOLATION = reported, OK = missed).
cd "$(dirname "$0")/.." || exit 1
S=${1:-1}
OUT=seeded/RESULTS.s$S.txt; : > $OUT.tmp
for d in seeded/C*/; do
  id=$(basename $d); prop=${id%-*}
  cw=$(sed -n 's/.*"check_with": *"\(C[0-9][0-9]\)".*/\1/p' $d/meta.json 2>/dev/null | head -1); [ -n "$cw" ] && prop=$cw
  if grep -q '"retired"' $d/meta.json 2>/dev/null; then echo "$id RETIRED" >> $OUT.tmp; continue; fi
  r=$(tools/mutcheck.sh $d/patch.diff $prop quick $S | grep -E "^(VIOLATION|OK|INCONCLUSIVE|PATCH)" | head -1 | sed 's/replay=.*//' )
  echo "$id $r" >> $OUT.tmp
done
mv $OUT.tmp $OUT
