#!/bin/sh
# usage: tools/benigncheck.sh <patch.diff> [seed] [props...]  -- applies a (supposedly property-preserving) change to a scratch
# worktree of /repo HEAD and runs the quick tier of every property (or the given ones) against it; prints everything that is not OK.
P=$(readlink -f "$1"); SEED=${2:-1}; shift; shift 2>/dev/null
PROPS=${*:-C01 C02 C03 C04 C05 C06 C07 C08 C09 C10 C11 C12 C13 C14 C15 C16 C17 C18 C19 C20}
D=$(mktemp -d /tmp/bc_XXXXXX); rmdir "$D"
git -C /repo worktree add -q --detach "$D" HEAD || exit 9
if ! git -C "$D" apply "$P" 2>/dev/null && ! { git -C "$D" reset -q --hard; git -C "$D" apply -3 "$P" >/dev/null 2>&1 && [ -z "$(git -C "$D" diff --name-only --diff-filter=U)" ] && git -C "$D" reset -q; }; then echo "PATCH DOES NOT APPLY: $P"; git -C /repo worktree remove --force "$D"; exit 9; fi
cd "$(dirname "$0")/.."
bad=0
for p in $PROPS; do
  r=$(VERIF_SEED=$SEED VERIF_NO_EVIDENCE=1 VERIF_REPO="$D" ./check "$p" --tier quick 2>&1 | grep -E "^(VIOLATION|OK prop|INCONCLUSIVE|KNOWN)" | tail -1)
  case "$r" in OK*) ;; *) echo "$p: $r"; bad=$((bad+1));; esac
done
echo "benigncheck $(basename $(dirname $P)): $bad not OK"
git -C /repo worktree remove --force "$D"
