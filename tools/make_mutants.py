#!/usr/bin/env python3
"""Generates hand-made mutants (mutants/*.patch) from (file, old, new) edits against /repo HEAD and, with --run,
runs the quick check of the targeted property against each (tools/mutcheck.sh). Results: mutants/RESULTS.txt"""
import os, subprocess, sys, tempfile
B='grpcgcp/gcp_balancer.go'; P='grpcgcp/gcp_picker.go'; M='grpcgcp/multiendpoint/multiendpoint.go'; G='grpcgcp/gcp_multiendpoint.go'; I='grpcgcp/gcp_interceptor.go'
MUT=[
 # name, prop, file, old, new
 ("C01-bind-overwrites", "C01", B, "\t_, ok := gb.affinityMap[bindKey]\n\tif !ok {\n\t\tgb.affinityMap[bindKey] = sc\n\t}", "\tgb.affinityMap[bindKey] = sc"),
 ("C01-ready-test-dropped", "C01", B, "\t\tif gb.scStates[sc] != connectivity.Ready {\n\t\t\t// It's possible", "\t\tif false && gb.scStates[sc] != connectivity.Ready {\n\t\t\t// It's possible"),
 ("C01-unbind-before-error-check", "C01", P, "\t\tp.detectUnresponsive(ctx, scRef, callStarted, info.Err)\n\t\tif info.Err != nil {\n\t\t\treturn\n\t\t}\n", "\t\tp.detectUnresponsive(ctx, scRef, callStarted, info.Err)\n\t\tif cmd == grpc_gcp.AffinityConfig_UNBIND {\n\t\t\tp.gb.unbindSubConn(boundKey)\n\t\t}\n\t\tif info.Err != nil {\n\t\t\treturn\n\t\t}\n"),
 ("C01-unbind-does-not-delete", "C01", B, "\t\tdelete(gb.affinityMap, boundKey)\n", ""),
 ("C17-entry-without-affinity-mapped", "C17", B, "\t\tif methodNames != nil && affinityCfg != nil {", "\t\tif methodNames != nil {"),
 ("C02-decrement-skipped-on-error", "C02", P, "\t\tscRef.streamsDecr()\n\t\tp.detectUnresponsive(ctx, scRef, callStarted, info.Err)\n\t\tif info.Err != nil {\n\t\t\treturn\n\t\t}", "\t\tp.detectUnresponsive(ctx, scRef, callStarted, info.Err)\n\t\tif info.Err != nil {\n\t\t\treturn\n\t\t}\n\t\tscRef.streamsDecr()"),
 ("C02-rr-increments-twice", "C02", P, "\t\tscRef.streamsIncr()\n\t\treturn scRef, nil\n\t}\n\n\tp.mu.Lock()", "\t\tscRef.streamsIncr()\n\t\tscRef.streamsIncr()\n\t\treturn scRef, nil\n\t}\n\n\tp.mu.Lock()"),
 ("C02-min-scan-ignores-last", "C02", P, "\tfor _, scRef := range p.scRefs {\n\t\tif scRef.getStreamsCnt() < minStreamsCnt {", "\tfor _, scRef := range p.scRefs[:len(p.scRefs)-1] {\n\t\tif scRef.getStreamsCnt() < minStreamsCnt {"),
 ("C03-size-bound-le", "C03", B, "len(gb.scRefs) >= int(maxSize) {", "len(gb.scRefs) > int(maxSize) {"),
 ("C03-idle-connecting-guard-removed", "C03", B, "\t\tif scState == connectivity.Connecting || scState == connectivity.Idle {\n\t\t\treturn\n\t\t}", "\t\tif false && (scState == connectivity.Connecting || scState == connectivity.Idle) {\n\t\t\treturn\n\t\t}"),
 ("C03-growth-at-le-watermark", "C03", P, "\tif minStreamsCnt < int32(p.gb.cfg.GetChannelPool().GetMaxConcurrentStreamsLowWatermark()) {", "\tif minStreamsCnt+1 < int32(p.gb.cfg.GetChannelPool().GetMaxConcurrentStreamsLowWatermark()) {"),
 ("C03-min-loop-bound-to-max", "C03", B, "\tfor len(gb.scRefs) < int(gb.cfg.GetChannelPool().GetMinSize()) {", "\tfor len(gb.scRefs) < int(gb.cfg.GetChannelPool().GetMinSize()) && len(gb.scRefs) < int(gb.cfg.GetChannelPool().GetMaxSize()) {"),
 ("C04-shutdown-not-counted", "C04", B, "\toldAggrState := gb.state\n\tgb.state = gb.csEvltr.recordTransition(oldS, s)", "\toldAggrState := gb.state\n\tif s != connectivity.Shutdown {\n\t\tgb.state = gb.csEvltr.recordTransition(oldS, s)\n\t}"),
 ("C04-tf-clause-dropped", "C04", B, "\tif (s == connectivity.Ready) != (oldS == connectivity.Ready) ||\n\t\t(gb.state == connectivity.TransientFailure) != (oldAggrState == connectivity.TransientFailure) {", "\tif _ = oldAggrState; (s == connectivity.Ready) != (oldS == connectivity.Ready) {"),
 ("C04-swap-records-ready-without-inheriting", "C04", B, "\t\tgb.scStates[sc] = gb.scStates[oldSc]\n", "\t\tgb.scStates[sc] = connectivity.Connecting\n"),
 ("C07-call-count-gt", "C07", P, "\tif scRef.deCallsInc() >= p.gb.cfg.GetChannelPool().GetUnresponsiveCalls() &&", "\tif scRef.deCallsInc() > p.gb.cfg.GetChannelPool().GetUnresponsiveCalls() &&"),
 ("C07-backoff-not-reset-on-response", "C07", B, "\tatomic.StoreUint32(&ref.deCalls, 0)\n\tref.refreshCnt = 0\n}", "\tatomic.StoreUint32(&ref.deCalls, 0)\n}"),
 ("C07-before-to-after", "C07", P, "\tif callStarted.Before(lastResp) {", "\tif callStarted.After(lastResp) {"),
 ("C07-deadline-test-inverted", "C07", P, "!ok || dl.After(time.Now()) {", "!ok || !dl.After(time.Now()) {"),
 ("C07-window-ge", "C07", P, "\t\tlastResp.Before(time.Now().Add(-p.unresponsiveWindow(refreshCnt))) {", "\t\t!lastResp.After(time.Now().Add(-p.unresponsiveWindow(refreshCnt))) {"),
 ("C08-standin-not-dropped-when-standin-fails", "C08", B, "\t\tfor k, v := range gb.fallbackMap {\n\t\t\tif v == sc {\n\t\t\t\tdelete(gb.fallbackMap, k)\n\t\t\t}\n\t\t}\n\t}\n\tif oldS != connectivity.Ready", "\t}\n\tif oldS != connectivity.Ready"),
 ("C08-standin-not-dropped-when-home-recovers", "C08", B, "\t\tfor k := range gb.fallbackMap {\n\t\t\tif gb.affinityMap[k] == sc {\n\t\t\t\tdelete(gb.fallbackMap, k)\n\t\t\t}\n\t\t}", ""),
 ("C08-fallback-writes-affinity", "C08", B, "\t\t\t\t\tgb.fallbackMap[boundKey] = scRef.subConn\n\t\t\t\t\treturn scRef, true", "\t\t\t\t\tgb.fallbackMap[boundKey] = scRef.subConn\n\t\t\t\t\tgb.affinityMap[boundKey] = scRef.subConn\n\t\t\t\t\treturn scRef, true"),
 ("C08-standin-rechosen-every-pick", "C08", B, "\t\t\t\tif sc, ok := gb.fallbackMap[boundKey]; ok {\n\t\t\t\t\treturn gb.scRefs[sc], true\n\t\t\t\t}\n", ""),
 ("C09-cursor-advanced-twice", "C09", B, "atomic.AddUint32(&gb.rrRefId, 1)%uint32(len(gb.scRefList))", "atomic.AddUint32(&gb.rrRefId, 2)%uint32(len(gb.scRefList))"),
 ("C09-strategy-applied-to-every-command", "C09", P, "\tif cmd == grpc_gcp.AffinityConfig_BIND && p.gb.cfg.GetChannelPool().GetBindPickStrategy() == grpc_gcp.ChannelPoolConfig_ROUND_ROBIN {", "\tif p.gb.cfg.GetChannelPool().GetBindPickStrategy() == grpc_gcp.ChannelPoolConfig_ROUND_ROBIN {"),
 ("C09-cursor-not-atomic", "C09", B, "\tscRef := gb.scRefList[atomic.AddUint32(&gb.rrRefId, 1)%uint32(len(gb.scRefList))]", "\tgb.rrRefId++\n\tscRef := gb.scRefList[gb.rrRefId%uint32(len(gb.scRefList))]"),
 ("C11-only-first-element", "C11", P, "\tfor i := 0; i < valField.Len(); i++ {", "\tfor i := 0; i < valField.Len() && i < 1; i++ {"),
 ("C11-last-segment-kind-test-removed", "C11", P, "\t\tif val.Kind() != reflect.String {\n\t\t\treturn nil, fmt.Errorf(\"cannot get string", "\t\tif false && val.Kind() != reflect.String {\n\t\t\treturn nil, fmt.Errorf(\"cannot get string"),
 ("C11-error-swallowed-in-fanout", "C11", P, "\t\tif err != nil {\n\t\t\treturn keys, err\n\t\t}\n\t\tkeys = append(keys, kk...)", "\t\tif err != nil {\n\t\t\tcontinue\n\t\t}\n\t\tkeys = append(keys, kk...)"),
 ("C12-broadcast-to-signal", "C12", I, "\tcs.Unlock()\n\tcs.cond.Broadcast()\n\treturn cs.ClientStream.SendMsg(m)", "\tcs.Unlock()\n\tcs.cond.Signal()\n\treturn cs.ClientStream.SendMsg(m)"),
 ("C12-first-message-not-stored", "C12", I, "\t\tctx := context.WithValue(cs.ctx, gcpKey, &gcpContext{reqMsg: m})", "\t\tctx := context.WithValue(cs.ctx, gcpKey, &gcpContext{})"),
 ("C12-unary-drops-reply", "C12", I, "\t\treqMsg:   req,\n\t\treplyMsg: reply,", "\t\treqMsg:   req,"),
 ("C13-priority-not-updated-for-kept", "C13", M, "\t\t} else {\n\t\t\tme.endpoints[e].priority = i\n\t\t}", "\t\t}"),
 ("C13-removed-current-not-replaced", "C13", M, "\tif !exists {\n\t\tme.current = top.id\n\t}", ""),
 ("C13-topA-comparison-inverted", "C13", M, "\t\tif e.status == available && (topA == nil || topA.priority > e.priority) {", "\t\tif e.status == available && (topA == nil || topA.priority < e.priority) {"),
 ("C14-recovery-timer-rescheduled-on-repeat", "C14", M, "\tif ee.status != available {\n\t\treturn\n\t}", "\tif ee.status == unavailable {\n\t\treturn\n\t}"),
 ("C14-outdated-timer-check-removed", "C14", M, "\t\tif e.lastChange != stateChange {\n\t\t\t// This timer is outdated.\n\t\t\treturn\n\t\t}", "\t\t_ = stateChange"),
 ("C14-delayed-switch-ignores-availability", "C14", M, "\t\tif e, ok := me.endpoints[me.future]; ok && e.status == available {", "\t\tif e, ok := me.endpoints[me.future]; ok {"),
 ("C15-default-name-not-updated", "C15", G, "\tgme.defaultName = meOpts.Default\n\n\t// Remove obsolete MultiEndpoints.", "\t// Remove obsolete MultiEndpoints."),
 ("C15-obsolete-pool-not-closed", "C15", G, "\t\t\tif err := mc.conn.Close(); err != nil {\n\t\t\t\tgme.log.Errorf(\"error while closing the pool for %q endpoint: %v\", e, err)\n\t\t\t}\n\t\t\tif gme.log.V(FINE) {\n\t\t\t\tgme.log.Infof(\"closed channel pool for %q endpoint.\", e)\n\t\t\t}\n\t\t\tmc.stopMonitoring()", "\t\t\tmc.stopMonitoring()"),
 ("C15-monitor-not-stopped", "C15", G, "\t\t\tmc.stopMonitoring()\n\t\t\tdelete(gme.pools, e)", "\t\t\tdelete(gme.pools, e)"),
 ("C15-status-sync-removed", "C15", G, "\tfor e, mc := range gme.pools {\n\t\ts := mc.conn.GetState()\n\t\tfor _, me := range gme.mes {\n\t\t\tme.SetEndpointAvailability(e, s == connectivity.Ready)\n\t\t}\n\t}\n\treturn nil", "\treturn nil"),
 ("C15-pickconn-ignores-name", "C15", G, "\tif !ok || !ook {\n\t\tme = gme.mes[gme.defaultName]\n\t}", "\tif true || !ok || !ook {\n\t\tme = gme.mes[gme.defaultName]\n\t}"),
 ("C15-notify-first-me-only", "C15", G, "\t\tme.SetEndpointAvailability(mc.endpoint, state == connectivity.Ready)\n\t}", "\t\tme.SetEndpointAvailability(mc.endpoint, state == connectivity.Ready)\n\t\tbreak\n\t}"),
 ("C16-close-skips-monitors", "C16", G, "\tfor e, mc := range gme.pools {\n\t\tmc.stopMonitoring()\n\t\tif err := mc.conn.Close(); err != nil {", "\tfor e, mc := range gme.pools {\n\t\tif err := mc.conn.Close(); err != nil {"),
 ("C16-empty-list-validation-removed", "C16", G, "\t\tif meo == nil || len(meo.Endpoints) == 0 {", "\t\tif meo == nil {"),
 ("C17-clone-removed", "C17", B, "\t\t\tApiConfig: proto.Clone(cfg.ApiConfig).(*pb.ApiConfig),", "\t\t\tApiConfig: func() *pb.ApiConfig { _ = proto.Clone; return cfg.ApiConfig }(),"),
 ("C17-maxsize-default-8", "C17", B, "\tdefaultMaxSize     = 4", "\tdefaultMaxSize     = 8"),
 ("C17-only-first-name-mapped", "C17", B, "\t\t\tfor _, method := range methodNames {\n\t\t\t\tmp[method] = affinityCfg\n\t\t\t}", "\t\t\tmp[methodNames[0]] = affinityCfg"),
 ("C17-discard-unknown", "C17", B, "\terr := protojson.Unmarshal(j, c)", "\terr := protojson.UnmarshalOptions{DiscardUnknown: true}.Unmarshal(j, c)"),
 ("C17-gcpconfig-not-cloned", "C17", G, "\treturn proto.Clone(gme.gcpConfig).(*pb.ApiConfig)", "\treturn gme.gcpConfig"),
 ("C20-growth-uses-first-addresses", "C20", B, "\tgb.addrs = addrs\n\tif gb.cfg == nil {", "\tif gb.addrs == nil {\n\t\tgb.addrs = addrs\n\t}\n\tif gb.cfg == nil {"),
 ("C20-no-reconnect-after-update", "C20", B, "\t\tscRef.subConn.UpdateAddresses(addrs)\n\t\tscRef.subConn.Connect()", "\t\tscRef.subConn.UpdateAddresses(addrs)"),
]
def main():
    run = "--run" in sys.argv
    only = [a for a in sys.argv[1:] if not a.startswith("--")]
    here = os.path.dirname(os.path.dirname(os.path.abspath(__file__)))
    d = tempfile.mkdtemp(prefix="mm_", dir="/tmp"); os.rmdir(d)
    subprocess.check_call(["git","-C","/repo","worktree","add","-q","--detach",d,"HEAD"])
    env = dict(os.environ, GOFLAGS="-mod=mod", GOPROXY="off", GOSUMDB="off", GOTOOLCHAIN="local")
    made = []
    try:
        for name, prop, f, old, new in MUT:
            if only and name not in only: continue
            p = os.path.join(d, f); s = open(p).read()
            if s.count(old) != 1:
                print("SKIP (pattern matches %d times): %s" % (s.count(old), name)); continue
            open(p, "w").write(s.replace(old, new))
            r = subprocess.run("go build ./... ", cwd=os.path.join(d, "grpcgcp"), env=env, shell=True, capture_output=True, text=True)
            if r.returncode != 0:
                print("SKIP (does not build): %s %s" % (name, r.stderr[-200:]))
            else:
                diff = subprocess.check_output(["git","-C",d,"diff"], text=True)
                open(os.path.join(here, "mutants", name + ".patch"), "w").write(diff)
                made.append((name, prop))
            subprocess.check_call(["git","-C",d,"checkout","-q","--","."])
    finally:
        subprocess.call(["git","-C","/repo","worktree","remove","--force",d])
    print("made", len(made))
    if run:
        out = open(os.path.join(here, "mutants", "RESULTS.txt"), "a" if only else "w")
        for name, prop in made:
            r = subprocess.run([os.path.join(here,"tools","mutcheck.sh"), os.path.join(here,"mutants",name+".patch"), prop], capture_output=True, text=True)
            line = [l for l in r.stdout.splitlines() if l.startswith(("VIOLATION","OK","INCONCLUSIVE","PATCH"))]
            res = (line[-1].split(" replay=")[0] if line else "?")
            print(name, prop, res); out.write("%s %s %s\n" % (name, prop, res)); out.flush()
main()
