#!/bin/sh
# usage: tools/revertcheck.sh <fix-commit> <prop> [tier]  -- reverts one fix commit in a scratch worktree and runs the check against it
SHA=$1; PROP=$2; TIER=${3:-quick}
D=$(mktemp -d /tmp/rc_XXXXXX); rmdir "$D"
git -C /repo worktree add -q --detach "$D" HEAD || exit 9
if ! git -C "$D" revert --no-commit "$SHA" >/dev/null 2>&1; then echo "REVERT CONFLICT $SHA"; git -C /repo worktree remove --force "$D"; exit 9; fi
cd "$(dirname "$0")/.." && VERIF_NO_EVIDENCE=1 VERIF_REPO="$D" ./check "$PROP" --tier "$TIER" 2>&1 | grep -E "^(VIOLATION|OK prop|INCONCLUSIVE|KNOWN)|rule " | cut -c1-330 | head -3
git -C /repo worktree remove --force "$D"
