#!/bin/sh
# usage: tools/reconfirm_demo.sh <id>...   -- for a stored change that was rebased/ported: demo passes without it, fails with it, module's quick suite passes with it
export GOFLAGS=-mod=mod GOPROXY=off GOSUMDB=off GOTOOLCHAIN=local
for ID in "$@"; do
S=/verif/seeded/$ID
D=$(mktemp -d /tmp/rc_XXXXXX); rmdir "$D"
git -C /repo worktree add -q --detach "$D" HEAD || exit 9
PKG=$(sed -n 's/^package \([a-z_]*\).*/\1/p' $S/demo_test.go | head -1)
case "$PKG" in multiendpoint) DD=grpcgcp/multiendpoint; MOD=grpcgcp;; prober) DD=spanner_prober/prober; MOD=spanner_prober;; test_grpc) DD=grpcgcp/test_grpc; MOD=grpcgcp;; main) if grep -q e2e-checksum $S/patch.diff; then DD=e2e-checksum; MOD=e2e-checksum; else DD=spanner_prober; MOD=spanner_prober; fi;; *) DD=grpcgcp; MOD=grpcgcp;; esac
cp $S/demo_test.go $D/$DD/zz_seeded_demo_test.go
RACE=""; case $ID in C10*) RACE=-race;; esac
(cd $D/$DD && go test $RACE -vet=off -count=1 -run Demo . >/tmp/rc_out0.$$ 2>&1); R0=$?
git -C $D apply $S/patch.diff || { echo "$ID PATCH DOES NOT APPLY"; git -C /repo worktree remove --force $D; continue; }
(cd $D/$DD && go test $RACE -vet=off -count=1 -run Demo . >/tmp/rc_out1.$$ 2>&1); R1=$?
rm $D/$DD/zz_seeded_demo_test.go
if [ $MOD = grpcgcp ]; then (cd $D/grpcgcp && go build ./... && go test -vet=off -count=1 . ./multiendpoint >/tmp/rc_out2.$$ 2>&1); R2=$?; else R2=0; fi
echo "$ID demo-without=$R0 demo-with=$R1 suite-with=$R2"
git -C /repo worktree remove --force $D; rm -f /tmp/rc_out*.$$
done
