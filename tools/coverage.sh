#!/bin/sh
# Generator health check: statement coverage of grpcgcp and grpcgcp/multiendpoint reached by the harness
# generators (quick-tier sized runs, both logging verbosities). Not a registered check; it answers "which
# library code do the generators never execute?". Works on a scratch copy of /repo (the cover tool cannot
# read overlay files), removed at the end.
#   usage: tools/coverage.sh [checks]     (default 3000 cases per rapid property, 150 for the real-gRPC engine)
set -e
N=${1:-3000}
export GOFLAGS=-mod=mod GOPROXY=off GOSUMDB=off GOTOOLCHAIN=local
HERE=$(cd "$(dirname "$0")/.." && pwd)
REPO=${VERIF_REPO:-/repo}
T=$(mktemp -d /tmp/vcov_XXXXXX)
trap 'rm -rf "$T"' EXIT
mkdir -p "$T/repo" && cp -r "$REPO/grpcgcp" "$T/repo/grpcgcp"
cp "$HERE/inject/hooks_grpcgcp.go.txt" "$T/repo/grpcgcp/verif_hooks.go"
cp "$HERE/inject/hooks_me.go.txt" "$T/repo/grpcgcp/multiendpoint/verif_hooks.go"
sed "s#=> .*grpcgcp\$#=> $T/repo/grpcgcp#" "$HERE/harness/go.mod" > "$T/go.mod"
grep -q "$T/repo/grpcgcp" "$T/go.mod" || echo "replace github.com/GoogleCloudPlatform/grpc-gcp-go/grpcgcp => $T/repo/grpcgcp" >> "$T/go.mod"
cp "$REPO/grpcgcp/go.sum" "$T/go.sum"; cat "$HERE/harness/go.sum" >> "$T/go.sum" 2>/dev/null || true
PK=github.com/GoogleCloudPlatform/grpc-gcp-go/grpcgcp,github.com/GoogleCloudPlatform/grpc-gcp-go/grpcgcp/multiendpoint
cd "$HERE/harness"
for p in poolsim mesim keys icept cfg gmesim conc; do
  go1.26.8 test -c -cover -coverpkg=$PK -tags verif -modfile "$T/go.mod" -vet=off -o "$T/$p.bin" ./$p 2>&1 | grep -v "^warning: no packages" || true
done
cd "$T"
export VERIF_CORPUS="$HERE/corpus"
for p in poolsim mesim keys icept cfg; do for v in 0 1; do
  VERIF_VERBOSE=$v ./$p.bin -test.run 'TestC' -rapid.checks $N -rapid.seed 7 -rapid.nofailfile -test.coverprofile="$T/$p.$v.out" -test.timeout 1200s >/dev/null 2>&1 || echo "run of $p failed"
done; done
for v in 0 1; do VERIF_VERBOSE=$v ./gmesim.bin -test.run 'TestC' -rapid.checks 150 -rapid.seed 7 -rapid.nofailfile -test.coverprofile="$T/gmesim.$v.out" -test.timeout 1200s >/dev/null 2>&1 || echo "run of gmesim failed"; done
VERIF_VERBOSE=1 ./conc.bin -test.run 'TestC|TestConc|TestSched' -rapid.checks 60 -rapid.seed 7 -rapid.nofailfile -test.coverprofile="$T/conc.0.out" -test.timeout 1200s >/dev/null 2>&1 || echo "run of conc failed"
python3 - "$T" <<'PY'
import glob,re,collections,sys
T=sys.argv[1]
cov=collections.defaultdict(int)
for f in glob.glob(T+'/*.out'):
    for line in open(f):
        m=re.match(r'(.*):(\d+)\.(\d+),(\d+)\.(\d+) (\d+) (\d+)',line)
        if not m: continue
        key=(m.group(1),int(m.group(2)),int(m.group(4)),int(m.group(6)))
        cov[key]=max(cov[key],int(m.group(7)))
gen=lambda f: f.endswith('.pb.go') or 'verif_hooks' in f
tot=sum(k[3] for k in cov if not gen(k[0])); hit=sum(k[3] for k,v in cov.items() if v and not gen(k[0]))
print("statements (without generated code and hooks): %d, executed: %d = %.1f%%"%(tot,hit,100.0*hit/max(1,tot)))
by=collections.defaultdict(list)
for k,v in cov.items():
    if not v and not gen(k[0]): by[k[0]].append(k)
for f,l in sorted(by.items()):
    src=open(f.replace('github.com/GoogleCloudPlatform/grpc-gcp-go/grpcgcp',T+'/repo/grpcgcp')).read().split('\n')
    print("==",f,len(l),"blocks never executed")
    for k in sorted(l,key=lambda k:k[1]): print("  %d-%d: %s"%(k[1],k[2],src[k[1]-1].strip()[:110]))
PY
