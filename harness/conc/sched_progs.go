package conc

import (
	"context"
	"errors"
	"fmt"
	"sync"
	"sync/atomic"
	"time"

	"github.com/GoogleCloudPlatform/grpc-gcp-go/grpcgcp"
	"google.golang.org/grpc"
	"google.golang.org/grpc/balancer"
	"google.golang.org/grpc/connectivity"
	"google.golang.org/grpc/metadata"
	"google.golang.org/grpc/resolver"
)

// SchedProg is a small concurrent program executed under the cooperative scheduler with a generated
// schedule vector.
type SchedProg struct {
	Property string   `json:"property,omitempty"`
	Kind     string   `json:"kind"` // sched-growth | sched-refresh | sched-lockorder | sched-stream
	Max      int      `json:"maxSize,omitempty"`
	NPick    int      `json:"pickTasks,omitempty"`
	UdCalls  int      `json:"udCalls,omitempty"`
	Extra    int      `json:"extra,omitempty"` // program-specific variant
	Choices  []int    `json:"schedule"`
	Prio     []int    `json:"priorities,omitempty"`   // mode "pct": task priorities
	Changes  []int    `json:"changePoints,omitempty"` // mode "pct": steps at which the running task is demoted
	Mode     string   `json:"mode,omitempty"`         // "pct" or "random" (one choice per step)
	Failure  string   `json:"failure,omitempty"`
	Trace    []string `json:"trace,omitempty"`
}

type poolEnv struct {
	cc  *ccc
	b   balancer.Balancer
	rep func(sc *csc, s connectivity.State)
}

func newPoolEnv(cfgJSON string, max int, minLEmax bool) (*poolEnv, error) {
	bb := balancer.Get("grpc_gcp")
	cfg, err := bb.(balancer.ConfigParser).ParseConfig([]byte(cfgJSON))
	if err != nil {
		return nil, err
	}
	cc := &ccc{pending: map[int]int{}, removed: map[*csc]int{}, newConns: make(chan *csc, 256), max: max, minLEmax: minLEmax}
	b := bb.Build(cc, balancer.BuildOptions{})
	e := &poolEnv{cc: cc, b: b}
	e.rep = func(sc *csc, s connectivity.State) {
		cc.mu.Lock()
		cc.cbConn = sc
		cc.mu.Unlock()
		b.UpdateSubConnState(sc, balancer.SubConnState{ConnectivityState: s})
		cc.mu.Lock()
		cc.cbConn = nil
		cc.mu.Unlock()
	}
	b.UpdateClientConnState(balancer.ClientConnState{ResolverState: resolver.State{Addresses: []resolver.Address{{Addr: "A"}}}, BalancerConfig: cfg})
	return e, nil
}

func (e *poolEnv) popPending() *csc {
	e.cc.mu.Lock()
	defer e.cc.mu.Unlock()
	if len(e.cc.pendingUp) == 0 {
		return nil
	}
	sc := e.cc.pendingUp[0]
	e.cc.pendingUp = e.cc.pendingUp[1:]
	return sc
}

func (e *poolEnv) hasPending() bool {
	e.cc.mu.Lock()
	defer e.cc.mu.Unlock()
	return len(e.cc.pendingUp) > 0
}

// bringUpAll (unscheduled setup): every created conn becomes READY.
func (e *poolEnv) bringUpAll() {
	for sc := e.popPending(); sc != nil; sc = e.popPending() {
		e.rep(sc, connectivity.Connecting)
		e.rep(sc, connectivity.Ready)
	}
}

func (e *poolEnv) readyPickers() []balancer.Picker {
	e.cc.mu.Lock()
	defer e.cc.mu.Unlock()
	var out []balancer.Picker
	for i, p := range e.cc.pickers {
		if e.cc.states[i] == connectivity.Ready {
			out = append(out, p)
		}
	}
	return out
}

// run executes the scheduled tasks under the mode of p.
func (p *SchedProg) run(s *Sched, maxSteps int, check func() string) (SchedResult, string) {
	if p.Mode == "pct" {
		return s.RunWith(s.PCT(p.Prio, p.Changes), maxSteps, check)
	}
	return s.Run(p.Choices, maxSteps, check)
}

func violationOf(cc *ccc) string {
	if v := cc.violation.Load(); v != nil {
		return v.(string)
	}
	return ""
}

const schedMethods = `"method":[{"name":["/bind"],"affinity":{"command":"BIND","affinityKey":"key"}},{"name":["/bound"],"affinity":{"command":"BOUND","affinityKey":"key"}}]`

// RunSched executes p; returns "prop|message" or "".
func RunSched(p *SchedProg) (violation string, steps int) {
	switch p.Kind {
	case "sched-growth":
		return schedGrowth(p)
	case "sched-refresh":
		return schedRefresh(p)
	case "sched-lockorder":
		return schedLockOrder(p)
	case "sched-stream":
		return schedStream(p)
	case "sched-fallback":
		return schedFallback(p)
	case "sched-bindswap":
		return schedBindSwap(p)
	case "sched-rr":
		return schedRR(p)
	case "sched-addr":
		return schedAddr(p)
	case "sched-spread":
		return schedSpread(p)
	case "sched-rrempty":
		return schedRREmpty(p)
	}
	return "", 0
}

// schedRREmpty: ROUND_ROBIN, minSize = maxSize = 1. The only channel reports SHUTDOWN (the pool is empty). A BIND
// call through the picker published before meets the empty pool while a resolver update re-creates the pool and the new
// connection becomes READY. Invariant (C03): the pool never holds more than maxSize channels.
func schedRREmpty(p *SchedProg) (string, int) {
	e, err := newPoolEnv(fmt.Sprintf(`{"channelPool":{"minSize":1,"maxSize":1,"bindPickStrategy":"ROUND_ROBIN"},%s}`, schedMethods), 1, false)
	if err != nil {
		return "C17|" + err.Error(), 0
	}
	e.bringUpAll()
	pk := e.readyPickers()
	if len(pk) == 0 {
		return "", 0
	}
	old := pk[len(pk)-1]
	e.cc.mu.Lock()
	first := e.cc.all[0]
	e.cc.mu.Unlock()
	e.rep(first, connectivity.Shutdown)
	live := func() int {
		e.cc.mu.Lock()
		defer e.cc.mu.Unlock()
		n := 0
		for _, sc := range e.cc.all {
			if sc != first && !sc.refresh && e.cc.removed[sc] == 0 {
				n++
			}
		}
		return n
	}
	s := NewSched()
	npick := 1 + p.Extra%2
	for g := 0; g < npick; g++ {
		s.Go(fmt.Sprintf("bind-pick-%d", g), func() {
			ctx, cancel := context.WithTimeout(ictx(context.Background(), &cmsg{}, &cmsg{Key: "k"}), 50*time.Millisecond)
			defer cancel()
			if r, err := old.Pick(balancer.PickInfo{Ctx: ctx, FullMethodName: "/bind"}); err == nil && r.Done != nil {
				r.Done(balancer.DoneInfo{Err: fmt.Errorf("aborted")})
			}
		})
	}
	s.Go("resolver-update", func() {
		e.b.UpdateClientConnState(balancer.ClientConnState{ResolverState: resolver.State{Addresses: []resolver.Address{{Addr: "A"}}}})
		for sc := e.popPending(); sc != nil; sc = e.popPending() {
			if (p.Extra/2)%2 == 0 {
				e.rep(sc, connectivity.Connecting)
			}
			e.rep(sc, connectivity.Ready)
		}
	})
	res, v := p.run(s, 600, func() string {
		if n := live(); n > 1 {
			return fmt.Sprintf("C03|the pool holds %d channels, maxSize is 1: a round-robin BIND call that met the empty pool added a channel after a resolver update had re-created the pool", n)
		}
		return violationOf(e.cc)
	})
	p.Trace = s.Trace
	s.Drain()
	if v == "" {
		if n := live(); n > 1 {
			v = fmt.Sprintf("C03|the pool holds %d channels, maxSize is 1: a round-robin BIND call that met the empty pool added a channel after a resolver update had re-created the pool", n)
		}
	}
	return judgeSched(res, v), res.Steps
}

// schedSpread: n READY channels with equal load (0, or the watermark: a saturated pool at maxSize), no completions;
// NPick tasks place plain calls through one picker, or alternately through two picker objects that know the same READY channels (the one published before and the one published after a flap). Choosing the least loaded channel and counting the call there is one
// step (C02: "every placement adds one", "minimal among those channels"): from equal loads, after any number of
// placements the per-channel counts differ by at most one. Two picks that overlap must not see the same minimum.
func schedSpread(p *SchedProg) (string, int) {
	n := p.Max
	if n < 2 {
		n = 2
	}
	wm := []int{100, 1, 2}[p.Extra%3]
	e, err := newPoolEnv(fmt.Sprintf(`{"channelPool":{"minSize":%d,"maxSize":%d,"maxConcurrentStreamsLowWatermark":%d},%s}`, n, n, wm, schedMethods), n, true)
	if err != nil {
		return "C17|" + err.Error(), 0
	}
	e.bringUpAll()
	pk := e.readyPickers()
	if len(pk) == 0 {
		return "", 0
	}
	cur := pk[len(pk)-1]
	prev := cur
	if (p.Extra/12)%2 == 1 {
		// two picker objects with the same READY channels: a channel flaps, gRPC keeps calling the picker published before
		// the flap for the calls that loaded it earlier
		e.cc.mu.Lock()
		first := e.cc.all[0]
		e.cc.mu.Unlock()
		e.rep(first, connectivity.TransientFailure)
		e.rep(first, connectivity.Ready)
		if pk2 := e.readyPickers(); len(pk2) > len(pk) {
			cur = pk2[len(pk2)-1]
		}
	}
	counts := map[*csc]int{}
	var cmu sync.Mutex
	var turn atomic.Int64
	place := func() error {
		pkr := cur
		if turn.Add(1)%2 == 0 {
			pkr = prev
		}
		r, err := pkr.Pick(balancer.PickInfo{Ctx: context.Background(), FullMethodName: "/plain"})
		if err != nil {
			return err
		}
		cmu.Lock()
		counts[r.SubConn.(*csc)]++
		cmu.Unlock()
		return nil
	}
	if (p.Extra/3)%2 == 1 {
		// start from a pool in which every channel already carries wm calls (saturated at maxSize)
		for i := 0; i < n*wm && wm < 100; i++ {
			if err := place(); err != nil {
				return "C02|setup pick failed: " + err.Error(), 0
			}
		}
	}
	per := 1 + (p.Extra/6)%2
	tasks := p.NPick
	if tasks < 2 {
		tasks = 2
	}
	s := NewSched()
	var perr atomic.Value
	for g := 0; g < tasks; g++ {
		s.Go(fmt.Sprintf("pick-%d", g), func() {
			for i := 0; i < per; i++ {
				if err := place(); err != nil {
					perr.Store(err.Error())
				}
			}
		})
	}
	res, v := p.run(s, 600, func() string { return violationOf(e.cc) })
	p.Trace = s.Trace
	s.Drain()
	if v == "" && res.Deadlock == "" && res.Panic == "" && res.Steps < 600 {
		if m := perr.Load(); m != nil {
			v = "C02|a plain call on a pool of READY channels at maxSize was not placed: " + m.(string)
		} else {
			cmu.Lock()
			lo, hi, total := 1<<30, 0, 0
			e.cc.mu.Lock()
			for _, sc := range e.cc.all {
				c := counts[sc]
				total += c
				if c < lo {
					lo = c
				}
				if c > hi {
					hi = c
				}
			}
			e.cc.mu.Unlock()
			cmu.Unlock()
			if hi-lo > 1 {
				v = fmt.Sprintf("C02|%d plain calls placed through one picker on %d READY channels that started with equal load, none completed: the busiest channel carries %d, the idlest %d (a call was placed on a channel that was not the least loaded one: two overlapping picks saw the same minimum)", total, n, hi, lo)
			}
		}
	}
	return judgeSched(res, v), res.Steps
}

// schedGrowth: saturated pool below maxSize, picks on distinct (stale and current) pickers race with
// the callback that brings newborn connections up. Invariant: pool channels <= maxSize (C03).
func schedGrowth(p *SchedProg) (string, int) {
	max := p.Max
	if max < 2 {
		max = 2
	}
	e, err := newPoolEnv(fmt.Sprintf(`{"channelPool":{"minSize":1,"maxSize":%d,"maxConcurrentStreamsLowWatermark":1},%s}`, max, schedMethods), max, true)
	if err != nil {
		return "C17|" + err.Error(), 0
	}
	e.bringUpAll()
	first := e.cc.all[0]
	// republish a few times so that distinct READY pickers exist
	for i := 0; i < 2; i++ {
		e.rep(first, connectivity.TransientFailure)
		e.rep(first, connectivity.Ready)
	}
	pk := e.readyPickers()
	if len(pk) == 0 {
		return "", 0
	}
	// saturate the only channel
	hold, err := pk[len(pk)-1].Pick(balancer.PickInfo{Ctx: context.Background(), FullMethodName: "/plain"})
	if err != nil {
		return "C02|setup pick failed: " + err.Error(), 0
	}
	defer hold.Done(balancer.DoneInfo{})
	s := NewSched()
	n := p.NPick
	if n < 2 {
		n = 2
	}
	done := 0
	for i := 0; i < n; i++ {
		picker := pk[i%len(pk)]
		s.Go(fmt.Sprintf("pick%d", i), func() {
			if r, err := picker.Pick(balancer.PickInfo{Ctx: context.Background(), FullMethodName: "/plain"}); err == nil {
				s.Pause("hold")
				r.Done(balancer.DoneInfo{})
			}
			done++
		})
	}
	s.Go("callbacks", func() {
		for {
			s.WaitUntil("wait-new-conn", func() bool { return e.hasPending() || done == n })
			sc := e.popPending()
			if sc == nil {
				return
			}
			e.rep(sc, connectivity.Connecting)
			s.Pause("between-reports")
			e.rep(sc, connectivity.Ready)
		}
	})
	res, v := p.run(s, 600, func() string { return violationOf(e.cc) })
	p.Trace = s.Trace
	s.Drain()
	return judgeSched(res, v), res.Steps
}

// schedRefresh: concurrent qualifying completions on one channel. Invariant: one replacement (C07).
func schedRefresh(p *SchedProg) (string, int) {
	calls := p.UdCalls
	if calls < 1 {
		calls = 1
	}
	e, err := newPoolEnv(fmt.Sprintf(`{"channelPool":{"minSize":1,"maxSize":1,"unresponsiveDetectionMs":1,"unresponsiveCalls":%d},%s}`, calls, schedMethods), 1, true)
	if err != nil {
		return "C17|" + err.Error(), 0
	}
	e.bringUpAll()
	e.cc.noRefreshAfterSwap = true
	pk := e.readyPickers()
	n := p.NPick
	if n < 2 {
		n = 2
	}
	n += calls - 1
	type call struct {
		res    balancer.PickResult
		cancel context.CancelFunc
	}
	var cs []call
	for i := 0; i < n; i++ {
		ctx, cancel := context.WithDeadline(context.Background(), time.Now().Add(-time.Second))
		r, err := pk[len(pk)-1].Pick(balancer.PickInfo{Ctx: ctx, FullMethodName: "/plain"})
		if err != nil {
			cancel()
			return "C02|setup pick failed: " + err.Error(), 0
		}
		cs = append(cs, call{r, cancel})
	}
	time.Sleep(2500 * time.Microsecond) // beyond the 1 ms detection window
	s := NewSched()
	done := 0
	for i, c := range cs {
		c := c
		s.Go(fmt.Sprintf("done%d", i), func() {
			me := gid()
			e.cc.doneConn.Store(me, c.res.SubConn.(*csc))
			c.res.Done(balancer.DoneInfo{Err: deErr})
			e.cc.doneConn.Delete(me)
			c.cancel()
			done++
		})
	}
	s.Go("callbacks", func() {
		for {
			s.WaitUntil("wait-new-conn", func() bool { return e.hasPending() || done == len(cs) })
			sc := e.popPending()
			if sc == nil {
				return
			}
			if p.Extra%2 == 0 {
				s.Pause("before-ready") // the replacement stays pending for a while
			}
			e.rep(sc, connectivity.Ready)
		}
	})
	res, v := p.run(s, 600, func() string { return violationOf(e.cc) })
	p.Trace = s.Trace
	s.Drain()
	return judgeSched(res, v), res.Steps
}

// schedLockOrder: a refresh-triggering completion, a resolver update and a keyed fallback pick at the
// same time. Invariant: everything returns (no lock-order deadlock) (C06).
func schedLockOrder(p *SchedProg) (string, int) {
	e, err := newPoolEnv(fmt.Sprintf(`{"channelPool":{"minSize":2,"maxSize":3,"fallbackToReady":true,"unresponsiveDetectionMs":1,"unresponsiveCalls":1},%s}`, schedMethods), 3, true)
	if err != nil {
		return "C17|" + err.Error(), 0
	}
	e.bringUpAll()
	pk := e.readyPickers()
	cur := pk[len(pk)-1]
	// bind a key
	bctx := ictx(context.Background(), &cmsg{}, &cmsg{Key: "k1"})
	r, err := cur.Pick(balancer.PickInfo{Ctx: bctx, FullMethodName: "/bind"})
	if err != nil {
		return "C01|setup bind failed: " + err.Error(), 0
	}
	home := r.SubConn.(*csc)
	r.Done(balancer.DoneInfo{})
	// a deadline call on the other channel (to be refreshed)
	dctx, dcancel := context.WithDeadline(context.Background(), time.Now().Add(-time.Second))
	defer dcancel()
	var dcall balancer.PickResult
	for i := 0; i < 4; i++ {
		x, err := cur.Pick(balancer.PickInfo{Ctx: dctx, FullMethodName: "/plain"})
		if err != nil {
			return "C02|setup pick failed: " + err.Error(), 0
		}
		if x.SubConn.(*csc) != home || i == 3 {
			dcall = x
			break
		}
		defer x.Done(balancer.DoneInfo{})
	}
	// the home channel of k1 leaves READY: keyed calls take the fallback path
	e.rep(home, connectivity.TransientFailure)
	pk = e.readyPickers()
	cur = pk[len(pk)-1]
	time.Sleep(2500 * time.Microsecond)
	s := NewSched()
	fin := 0
	s.Go("completion", func() {
		me := gid()
		e.cc.doneConn.Store(me, dcall.SubConn.(*csc))
		dcall.Done(balancer.DoneInfo{Err: deErr})
		e.cc.doneConn.Delete(me)
		fin++
	})
	s.Go("resolver", func() {
		e.b.UpdateClientConnState(balancer.ClientConnState{ResolverState: resolver.State{Addresses: []resolver.Address{{Addr: "B"}}}})
		if p.Extra%2 == 1 {
			e.rep(home, connectivity.Ready)
		}
		fin++
	})
	s.Go("keyed-pick", func() {
		ctx := ictx(context.Background(), &cmsg{Key: "k1"}, &cmsg{})
		if x, err := cur.Pick(balancer.PickInfo{Ctx: ctx, FullMethodName: "/bound"}); err == nil {
			x.Done(balancer.DoneInfo{})
		}
		fin++
	})
	if p.Extra%4 >= 2 {
		s.Go("plain-pick", func() {
			if x, err := cur.Pick(balancer.PickInfo{Ctx: context.Background(), FullMethodName: "/plain"}); err == nil {
				x.Done(balancer.DoneInfo{})
			}
		})
	}
	res, v := p.run(s, 600, func() string { return violationOf(e.cc) })
	p.Trace = s.Trace
	s.Drain()
	return judgeSched(res, v), res.Steps
}

// schedFallback: a keyed call takes the fallback path while the channel it is about to choose as stand-in
// fails. Afterwards (sequentially) the key must be served by a READY channel (C08).
func schedFallback(p *SchedProg) (string, int) {
	e, err := newPoolEnv(fmt.Sprintf(`{"channelPool":{"minSize":3,"maxSize":3,"fallbackToReady":true},%s}`, schedMethods), 3, true)
	if err != nil {
		return "C17|" + err.Error(), 0
	}
	e.bringUpAll()
	pk := e.readyPickers()
	cur := pk[len(pk)-1]
	bctx := ictx(context.Background(), &cmsg{}, &cmsg{Key: "k1"})
	r, err := cur.Pick(balancer.PickInfo{Ctx: bctx, FullMethodName: "/bind"})
	if err != nil {
		return "C01|setup bind failed: " + err.Error(), 0
	}
	home := r.SubConn.(*csc)
	r.Done(balancer.DoneInfo{})
	e.rep(home, connectivity.TransientFailure) // home down: keyed calls need a stand-in
	pk = e.readyPickers()
	cur = pk[len(pk)-1]
	// make one of the two remaining channels busier so that the stand-in choice is determined
	var others []*csc
	for _, sc := range e.cc.all {
		if sc != home {
			others = append(others, sc)
		}
	}
	var held []balancer.PickResult
	for i := 0; i < 8 && len(held) < 2; i++ {
		x, err := cur.Pick(balancer.PickInfo{Ctx: context.Background(), FullMethodName: "/plain"})
		if err != nil {
			break
		}
		if x.SubConn.(*csc) == others[1] {
			held = append(held, x)
		} else {
			x.Done(balancer.DoneInfo{})
		}
	}
	victim := others[0] // least busy: the stand-in a keyed call will choose
	s := NewSched()
	n := 1 + p.Extra%2
	for i := 0; i < n; i++ {
		s.Go(fmt.Sprintf("keyed-pick%d", i), func() {
			ctx := ictx(context.Background(), &cmsg{Key: "k1"}, &cmsg{})
			if x, err := cur.Pick(balancer.PickInfo{Ctx: ctx, FullMethodName: "/bound"}); err == nil {
				x.Done(balancer.DoneInfo{})
			}
		})
	}
	s.Go("callbacks", func() {
		e.rep(victim, connectivity.TransientFailure)
	})
	res, v := p.run(s, 400, func() string { return violationOf(e.cc) })
	p.Trace = s.Trace
	s.Drain()
	if j := judgeSched(res, v); j != "" {
		return j, res.Steps
	}
	for _, h := range held {
		h.Done(balancer.DoneInfo{})
	}
	// sequential epilogue: home and victim are down, others[1] is READY: the key must be served there
	pk = e.readyPickers()
	cur = pk[len(pk)-1]
	for i := 0; i < 2; i++ {
		ctx := ictx(context.Background(), &cmsg{Key: "k1"}, &cmsg{})
		x, err := cur.Pick(balancer.PickInfo{Ctx: ctx, FullMethodName: "/bound"})
		if err != nil {
			return fmt.Sprintf("C08|after the stand-in failed, a call for the bound key is not placed although channel %d is READY: %v", others[1].id, err), res.Steps
		}
		got := x.SubConn.(*csc)
		x.Done(balancer.DoneInfo{})
		if got != others[1] {
			return fmt.Sprintf("C08|after the stand-in (conn %d) failed, a call for the bound key is placed on conn %d, which is not READY, although conn %d is READY", victim.id, got.id, others[1].id), res.Steps
		}
	}
	return "", res.Steps
}

// schedAddr: a refresh-triggering completion races with a resolver update that changes the address
// list. Afterwards every connection of the pool (incl. the replacement that took over) uses the latest list (C20).
func schedAddr(p *SchedProg) (string, int) {
	min := 1 + p.Extra%2
	e, err := newPoolEnv(fmt.Sprintf(`{"channelPool":{"minSize":%d,"maxSize":3,"unresponsiveDetectionMs":1,"unresponsiveCalls":1},%s}`, min, schedMethods), 3, true)
	if err != nil {
		return "C17|" + err.Error(), 0
	}
	e.bringUpAll()
	pk := e.readyPickers()
	cur := pk[len(pk)-1]
	type call struct {
		res    balancer.PickResult
		cancel context.CancelFunc
	}
	var cs []call
	for i := 0; i < min; i++ {
		ctx, cancel := context.WithDeadline(context.Background(), time.Now().Add(-time.Second))
		r, err := cur.Pick(balancer.PickInfo{Ctx: ctx, FullMethodName: "/plain"})
		if err != nil {
			cancel()
			return "C02|setup pick failed: " + err.Error(), 0
		}
		cs = append(cs, call{r, cancel})
	}
	time.Sleep(2500 * time.Microsecond)
	newAddrs := []resolver.Address{{Addr: "B"}, {Addr: "B2"}}
	s := NewSched()
	for i, c := range cs {
		c := c
		s.Go(fmt.Sprintf("completion%d", i), func() {
			me := gid()
			e.cc.doneConn.Store(me, c.res.SubConn.(*csc))
			c.res.Done(balancer.DoneInfo{Err: deErr})
			e.cc.doneConn.Delete(me)
			c.cancel()
		})
	}
	s.Go("resolver", func() {
		e.b.UpdateClientConnState(balancer.ClientConnState{ResolverState: resolver.State{Addresses: newAddrs}})
	})
	res, v := p.run(s, 600, func() string { return violationOf(e.cc) })
	p.Trace = s.Trace
	s.Drain()
	if j := judgeSched(res, v); j != "" {
		return j, res.Steps
	}
	e.bringUpAll() // replacements take over
	want := addrKey(newAddrs)
	e.cc.mu.Lock()
	defer e.cc.mu.Unlock()
	for _, sc := range e.cc.all {
		sc.mu.Lock()
		a := sc.addrs
		sc.mu.Unlock()
		if e.cc.removed[sc] == 0 && a != want {
			return fmt.Sprintf("C20|connection %d of the pool (replacement=%v) uses address list %q after the resolver update to %q", sc.id, sc.refresh, a, want), res.Steps
		}
	}
	return "", res.Steps
}

func judgeSched(res SchedResult, v string) string {
	switch {
	case v != "":
		return v
	case res.Panic != "":
		return "C05,C06,C12|panic under the scheduler: " + res.Panic
	case res.Deadlock != "":
		return "C06,C12|deadlock: " + res.Deadlock
	}
	return ""
}

// ---- stream program ------------------------------------------------------------------------------------

type sfake struct {
	ctx   context.Context
	sends []interface{}
	recvs []interface{}
}

func (f *sfake) Header() (metadata.MD, error) { return nil, nil }
func (f *sfake) Trailer() metadata.MD         { return nil }
func (f *sfake) CloseSend() error             { return nil }
func (f *sfake) Context() context.Context     { return f.ctx }
func (f *sfake) SendMsg(m interface{}) error  { f.sends = append(f.sends, m); return nil }
func (f *sfake) RecvMsg(m interface{}) error  { f.recvs = append(f.recvs, m); return nil }

// schedStream: SendMsg, RecvMsg (and Header) issued from different tasks around the creation of the
// underlying stream, with a cancellation at a scheduled point. Invariants (C12): one creation at
// most after a success, an early receiver is released by creation / creation error / context end
// (a receiver that stays blocked shows up as a deadlock), sends arrive in order.
func schedStream(p *SchedProg) (string, int) {
	ctx, cancel := context.WithCancel(context.Background())
	defer cancel()
	creations := 0
	var fake *sfake
	// independent variant digits
	senderPresent := p.Extra%4 != 3 // in one variant out of four nobody ever sends: only the end of the context can release the receivers
	cancelPresent := (p.Extra/4)%2 == 0 || !senderPresent
	headerPresent := (p.Extra/8)%2 == 0
	failFirst := (p.Extra/16)%3 == 1
	streamer := func(sctx context.Context, d *grpc.StreamDesc, cc *grpc.ClientConn, method string, o ...grpc.CallOption) (grpc.ClientStream, error) {
		creations++
		if sp := activeSched.Load(); sp != nil {
			sp.Pause("inside-streamer") // stream creation takes a while: other methods may be issued meanwhile
		}
		if failFirst && creations == 1 {
			return nil, errors.New("creation failed")
		}
		fake = &sfake{ctx: sctx}
		return fake, nil
	}
	cs, err := grpcgcp.GCPStreamClientInterceptor(ctx, &grpc.StreamDesc{ClientStreams: true, ServerStreams: true}, nil, "/m", streamer)
	if err != nil {
		return "C12|" + err.Error(), 0
	}
	s := NewSched()
	m1, m2, r1 := &cmsg{Key: "1"}, &cmsg{Key: "2"}, &cmsg{}
	var sendErrs []error
	var recvErr, hdrErr error
	recvDone, hdrDone := false, false
	if senderPresent {
		s.Go("sender", func() {
			sendErrs = append(sendErrs, cs.SendMsg(m1))
			s.Pause("between-sends")
			sendErrs = append(sendErrs, cs.SendMsg(m2))
		})
	}
	s.Go("receiver", func() {
		recvErr = cs.RecvMsg(r1)
		recvDone = true
	})
	if headerPresent {
		s.Go("header", func() {
			_, hdrErr = cs.Header()
			hdrDone = true
		})
	} else {
		hdrDone = true
	}
	if cancelPresent {
		s.Go("cancel", func() {
			s.Pause("before-cancel")
			cancel()
		})
	}
	res, v := p.run(s, 400, nil)
	p.Trace = s.Trace
	s.Drain()
	if j := judgeSched(res, v); j != "" {
		return j, res.Steps
	}
	if fake != nil && creations > 2 || (fake != nil && !failFirst && creations != 1) {
		return fmt.Sprintf("C12|the underlying stream was created %d times", creations), res.Steps
	}
	if !recvDone || !hdrDone {
		return "C12|a receiver is still blocked although the sender finished and the context ended", res.Steps
	}
	if fake != nil {
		for i, m := range fake.sends {
			if (i == 0 && m != interface{}(m1) && !(failFirst && m == interface{}(m2))) || (i == 1 && m != interface{}(m2)) {
				return "C12|sends reached the underlying stream out of order", res.Steps
			}
		}
		if recvErr == nil && (len(fake.recvs) != 1 || fake.recvs[0] != interface{}(r1)) {
			return "C12|RecvMsg returned nil without delegating its argument to the underlying stream", res.Steps
		}
	} else if recvErr == nil {
		return "C12|RecvMsg returned nil although no underlying stream exists", res.Steps
	}
	_ = hdrErr
	return "", res.Steps
}

// schedRR: (ROUND_ROBIN bind) a BIND pick is assigned a channel that is not READY and waits; the READY report for
// that channel, another balancer callback and a second pick run under the scheduler. The waiting pick must get its
// channel (C09: "handed its assigned channel only once that channel is READY"; C06: "returns promptly after", "does
// not delay any other call") - whatever the interleaving of its check-then-wait steps with the report.
func schedRR(p *SchedProg) (string, int) {
	e, err := newPoolEnv(fmt.Sprintf(`{"channelPool":{"minSize":2,"maxSize":2,"bindPickStrategy":"ROUND_ROBIN"},%s}`, schedMethods), 2, true)
	if err != nil {
		return "C17|" + err.Error(), 0
	}
	e.bringUpAll()
	pk := e.readyPickers()
	if len(pk) == 0 {
		return "", 0
	}
	cur := pk[len(pk)-1]
	// one BIND tells where the cursor is: the next one goes to the other channel
	r, err := cur.Pick(balancer.PickInfo{Ctx: ictx(context.Background(), &cmsg{}, &cmsg{Key: "k0"}), FullMethodName: "/bind"})
	if err != nil {
		return "C09|setup bind failed: " + err.Error(), 0
	}
	first := r.SubConn.(*csc)
	r.Done(balancer.DoneInfo{})
	var next *csc
	e.cc.mu.Lock()
	for _, sc := range e.cc.all {
		if sc != first && !sc.refresh {
			next = sc
		}
	}
	e.cc.mu.Unlock()
	if next == nil {
		return "", 0
	}
	e.rep(next, connectivity.State([]connectivity.State{connectivity.Connecting, connectivity.TransientFailure, connectivity.Idle}[p.Extra%3]))
	pk = e.readyPickers()
	cur = pk[len(pk)-1]
	s := NewSched()
	var got balancer.SubConn
	var gotErr error
	returned := false
	ctx, cancel := context.WithTimeout(ictx(context.Background(), &cmsg{}, &cmsg{Key: "k1"}), 3*time.Second)
	defer cancel()
	s.Go("bind-pick", func() {
		x, err := cur.Pick(balancer.PickInfo{Ctx: ctx, FullMethodName: "/bind"})
		got, gotErr, returned = x.SubConn, err, true
		if err == nil {
			x.Done(balancer.DoneInfo{})
		}
	})
	s.Go("ready-report", func() {
		if (p.Extra/3)%2 == 1 {
			e.rep(next, connectivity.Connecting)
		}
		e.rep(next, connectivity.Ready)
	})
	if (p.Extra/6)%2 == 1 {
		s.Go("other-callback", func() {
			e.rep(first, connectivity.Ready) // a redundant report: needs the balancer's write lock
			e.b.ResolverError(fmt.Errorf("x"))
		})
	}
	if (p.Extra/12)%2 == 1 {
		s.Go("plain-pick", func() {
			if x, err := cur.Pick(balancer.PickInfo{Ctx: context.Background(), FullMethodName: "/plain"}); err == nil {
				x.Done(balancer.DoneInfo{})
			}
		})
	}
	res, v := p.run(s, 600, func() string { return violationOf(e.cc) })
	p.Trace = s.Trace
	s.Drain()
	if v == "" && res.Deadlock == "" && res.Panic == "" && res.Steps < 600 {
		switch {
		case !returned:
			v = "C09,C06|the waiting BIND pick has not returned although every task ran to its end"
		case gotErr != nil:
			v = fmt.Sprintf("C09,C06|the BIND pick assigned to a channel that became READY returned %v instead of that channel (context alive: %v)", gotErr, ctx.Err() == nil)
		case got != balancer.SubConn(next):
			v = fmt.Sprintf("C09|the second BIND of a two-channel pool was handed %v, the cycle assigns it %v", got, next)
		}
	}
	if v == "" && res.Deadlock != "" {
		v = "C09,C06|deadlock: " + res.Deadlock
	}
	return judgeSched(res, v), res.Steps
}

// schedBindSwap: a BIND call completes successfully while the refresh of its channel concludes (the replacement
// becomes READY). Whatever the interleaving, the key is bound to that channel afterwards: a BOUND call for it is
// placed there, on the replacement connection, regardless of load (C01 "across a transparent connection refresh of
// that channel"; the take-over carries the bound keys, C07).
func schedBindSwap(p *SchedProg) (string, int) {
	e, err := newPoolEnv(fmt.Sprintf(`{"channelPool":{"minSize":2,"maxSize":2,"unresponsiveDetectionMs":1,"unresponsiveCalls":1},%s}`, schedMethods), 2, true)
	if err != nil {
		return "C17|" + err.Error(), 0
	}
	e.bringUpAll()
	pk := e.readyPickers()
	if len(pk) == 0 {
		return "", 0
	}
	cur := pk[len(pk)-1]
	// a plain call with an expired deadline: its channel X will be refreshed
	dctx, dcancel := context.WithDeadline(context.Background(), time.Now().Add(-time.Second))
	defer dcancel()
	d, err := cur.Pick(balancer.PickInfo{Ctx: dctx, FullMethodName: "/plain"})
	if err != nil {
		return "C02|setup pick failed: " + err.Error(), 0
	}
	x := d.SubConn.(*csc)
	// make the other channel busier, so that an unknown key would go to it... no: so that X is NOT the least loaded
	// when the BOUND call comes (it must go to X because of the key, not because of load)
	time.Sleep(2500 * time.Microsecond)
	me := gid()
	e.cc.doneConn.Store(me, x)
	d.Done(balancer.DoneInfo{Err: deErr}) // starts the refresh of X (replacement pending)
	e.cc.doneConn.Delete(me)
	repl := e.popPending()
	if repl == nil {
		return "C07|setup: the deadline-exceeded completion did not start a refresh", 0
	}
	// a BIND call placed on X (the least loaded channel is X or the other: insist on X by loading the other first)
	var held []balancer.PickResult
	var bind balancer.PickResult
	bctx := ictx(context.Background(), &cmsg{}, &cmsg{Key: "kx", Keys: []string{"kx"}})
	for i := 0; i < 4; i++ {
		r, err := cur.Pick(balancer.PickInfo{Ctx: bctx, FullMethodName: "/bind"})
		if err != nil {
			return "C01|setup bind pick failed: " + err.Error(), 0
		}
		if r.SubConn.(*csc).slot == x.slot {
			bind = r
			break
		}
		held = append(held, r) // a BIND on the other channel stays open (and is never completed with success)
	}
	defer func() {
		for _, r := range held {
			r.Done(balancer.DoneInfo{Err: fmt.Errorf("aborted")})
		}
	}()
	if bind.Done == nil {
		return "", 0
	}
	s := NewSched()
	s.Go("bind-completion", func() { bind.Done(balancer.DoneInfo{}) })
	s.Go("take-over", func() {
		if p.Extra%2 == 1 {
			e.rep(repl, connectivity.Connecting)
		}
		e.rep(repl, connectivity.Ready)
	})
	if (p.Extra/2)%2 == 1 {
		s.Go("plain-pick", func() {
			if r, err := cur.Pick(balancer.PickInfo{Ctx: context.Background(), FullMethodName: "/plain"}); err == nil {
				r.Done(balancer.DoneInfo{})
			}
		})
	}
	res, v := p.run(s, 600, func() string { return violationOf(e.cc) })
	p.Trace = s.Trace
	s.Drain()
	if v == "" && res.Deadlock == "" && res.Panic == "" && res.Steps < 600 {
		for _, r := range held {
			r.Done(balancer.DoneInfo{Err: fmt.Errorf("aborted")})
		}
		held = nil
		pk = e.readyPickers()
		if len(pk) > 0 {
			// two BOUND calls, the first stays open: if the key is not bound the second goes to the other (idle) channel
			kctx := ictx(context.Background(), &cmsg{Key: "kx"}, &cmsg{})
			var open []balancer.PickResult
			for i := 0; i < 2 && v == ""; i++ {
				r, err := pk[len(pk)-1].Pick(balancer.PickInfo{Ctx: kctx, FullMethodName: "/bound"})
				switch {
				case err != nil:
					v = fmt.Sprintf("C01,C07|after a BIND for key kx completed on channel %d while its refresh concluded, a BOUND call for kx gets %v (both channels READY)", x.slot, err)
				case r.SubConn.(*csc).slot != x.slot || r.SubConn.(*csc) != repl:
					v = fmt.Sprintf("C01,C07|a BIND for key kx completed on channel %d while its refresh concluded; BOUND call #%d for kx is placed on %v (channel %d), want the replacement connection %v of channel %d", x.slot, i+1, r.SubConn, r.SubConn.(*csc).slot, repl, x.slot)
				}
				if err == nil {
					open = append(open, r)
				}
			}
			for _, r := range open {
				r.Done(balancer.DoneInfo{})
			}
		}
	}
	return judgeSched(res, v), res.Steps
}
