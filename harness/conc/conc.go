// Package conc runs generated concurrent workloads against the library: serialized balancer
// callbacks from one goroutine, picks and completion callbacks from many goroutines, on sources
// instrumented with yield points in front of every mutex/atomic operation. The yield hook perturbs
// the schedule (Gosched / microsecond sleeps from a seeded generator). Oracles: the race detector
// (C10, -race build), and thread-safe invariants observed at the fake ClientConn: pool size
// (C03), one replacement per refreshing channel (C07), stream accounting drain (C02), even
// round-robin distribution (C09), progress (C06), no panic (C05).
package conc

import (
	"context"
	"fmt"
	"runtime"
	"strings"
	"sync"
	"sync/atomic"
	"time"

	"github.com/GoogleCloudPlatform/grpc-gcp-go/grpcgcp"
	"github.com/GoogleCloudPlatform/grpc-gcp-go/grpcgcp/multiendpoint"
	"google.golang.org/grpc"
	"google.golang.org/grpc/balancer"
	"google.golang.org/grpc/codes"
	"google.golang.org/grpc/connectivity"
	"google.golang.org/grpc/resolver"
	"google.golang.org/grpc/status"
)

// ---- schedule perturbation -------------------------------------------------------------------------

var (
	pertSeed  atomic.Uint64
	pertCount atomic.Uint64
	pertLevel atomic.Int32 // 0 off, 1 light, 2 heavy, 3 heavy with rare millisecond stalls
	Yields    atomic.Int64
)

func mix(x uint64) uint64 {
	x += 0x9e3779b97f4a7c15
	x = (x ^ (x >> 30)) * 0xbf58476d1ce4e5b9
	x = (x ^ (x >> 27)) * 0x94d049bb133111eb
	return x ^ (x >> 31)
}

func yield(site string) {
	if s := activeSched.Load(); s != nil {
		s.park(site, nil)
		return
	}
	lvl := pertLevel.Load()
	if lvl == 0 {
		return
	}
	Yields.Add(1)
	r := mix(pertSeed.Load() + pertCount.Add(1))
	switch {
	case r%16 < 5:
		runtime.Gosched()
	case r%16 == 5 && lvl >= 2:
		time.Sleep(time.Duration(1+r>>8%30) * time.Microsecond)
	case r%64 == 6:
		for i := 0; i < 5; i++ {
			runtime.Gosched()
		}
	case r%512 == 7 && lvl >= 3:
		// level 3: now and then a goroutine is held for milliseconds (long enough for a connection over the in-memory
		// transport to be dialed and become READY meanwhile)
		time.Sleep(time.Duration(1+r>>8%4) * time.Millisecond)
	}
}

// Install binds the library's yield hooks to the perturbation.
func Install() {
	grpcgcp.VerifSetYield(yield)
	multiendpoint.VerifSetYield(yield)
}

// ---- thread-safe fake ClientConn ------------------------------------------------------------------

type csc struct {
	id      int
	refresh bool // created by a refresh (stack contains (*gcpBalancer).refresh)
	slot    int
	mu      sync.Mutex
	addrs   string
	conns   int
	// like gRPC's subchannel the fake keeps the slice it was given; touch() reads it the way a connecting
	// transport does (under the connection's own lock, not the balancer's)
	held []resolver.Address
}

func (s *csc) touch() int {
	s.mu.Lock()
	n := 0
	for _, a := range s.held {
		n += len(a.Addr)
	}
	s.mu.Unlock()
	return n
}

func addrKey(a []resolver.Address) string {
	k := ""
	for _, x := range a {
		k += x.Addr + ","
	}
	return k
}

func (s *csc) UpdateAddresses(a []resolver.Address) {
	s.mu.Lock()
	s.addrs, s.held = addrKey(a), a
	s.mu.Unlock()
}
func (s *csc) Connect() { s.mu.Lock(); s.conns++; s.mu.Unlock() }
func (s *csc) GetOrBuildProducer(balancer.ProducerBuilder) (balancer.Producer, func()) {
	return nil, func() {}
}

type ccc struct {
	mu        sync.Mutex
	all       []*csc
	poolCnt   int
	pending   map[int]int // slot -> replacements created and not yet taken over
	slots     int
	newConns  chan *csc
	pickers   []balancer.Picker
	state     connectivity.State
	removed   map[*csc]int
	doneConn  sync.Map     // goroutine id -> *csc the running completion callback belongs to
	cbConn    *csc         // conn whose state report is being delivered (callback goroutine only)
	violation atomic.Value // string
	max       int
	minLEmax  bool
	swaps     int
	refreshes int
	grown     int
	pendingUp []*csc // created and not yet brought up (scheduled programs)
	// noRefreshAfterSwap (scheduled program sched-refresh): every call of the program was started before any take-over, so
	// after a take-over no completion can justify another replacement ("that call started after the channel's last response")
	noRefreshAfterSwap bool
	states             []connectivity.State
}

func gid() uint64 {
	var buf [64]byte
	n := runtime.Stack(buf[:], false)
	var id uint64
	for _, c := range buf[len("goroutine "):n] {
		if c < '0' || c > '9' {
			break
		}
		id = id*10 + uint64(c-'0')
	}
	return id
}

func (c *ccc) violate(prop, f string, a ...interface{}) {
	if c.violation.Load() == nil {
		c.violation.Store(prop + "|" + fmt.Sprintf(f, a...))
	}
}

func inRefresh() bool {
	pcs := make([]uintptr, 24)
	n := runtime.Callers(2, pcs)
	fr := runtime.CallersFrames(pcs[:n])
	for {
		f, more := fr.Next()
		if strings.HasSuffix(f.Function, "(*gcpBalancer).refresh") {
			return true
		}
		if !more {
			return false
		}
	}
}

func (c *ccc) NewSubConn(a []resolver.Address, o balancer.NewSubConnOptions) (balancer.SubConn, error) {
	isRefresh := inRefresh()
	c.mu.Lock()
	sc := &csc{id: len(c.all), refresh: isRefresh, addrs: addrKey(a), held: a}
	c.all = append(c.all, sc)
	if isRefresh {
		c.refreshes++
		if v, ok := c.doneConn.Load(gid()); ok {
			sc.slot = v.(*csc).slot
			c.pending[sc.slot]++
			if c.noRefreshAfterSwap && c.swaps > 0 {
				c.violate("C07", "[stale-refresh-decision] a replacement connection was created for channel %d after its refresh had concluded, by the completion of a call that was started before the take-over (the decision was taken before the balancer lock was free and not taken again under it)", sc.slot)
			}
			if c.pending[sc.slot] > 1 {
				c.violate("C07", "a second replacement connection was created for channel %d while its refresh is still in progress (%d pending)", sc.slot, c.pending[sc.slot])
			}
		} else {
			sc.slot = -1
		}
	} else {
		sc.slot = c.slots
		c.slots++
		c.poolCnt++
		c.grown++
		if c.minLEmax && c.poolCnt > c.max {
			c.violate("C03", "pool holds %d channels, maxSize is %d", c.poolCnt, c.max)
		}
	}
	c.mu.Unlock()
	c.mu.Lock()
	c.pendingUp = append(c.pendingUp, sc)
	c.mu.Unlock()
	select {
	case c.newConns <- sc:
	default:
	}
	return sc, nil
}

func (c *ccc) RemoveSubConn(sc balancer.SubConn) {
	c.mu.Lock()
	s := sc.(*csc)
	c.removed[s]++
	if c.removed[s] > 1 {
		c.violate("C07", "connection %d removed %d times", s.id, c.removed[s])
	}
	if r := c.cbConn; r != nil && r.refresh && r.slot >= 0 {
		c.pending[r.slot]--
		c.swaps++
	} else {
		c.violate("C03", "RemoveSubConn(conn %d) outside the take-over of a replacement", s.id)
	}
	c.mu.Unlock()
}
func (c *ccc) UpdateAddresses(sc balancer.SubConn, a []resolver.Address) {}
func (c *ccc) UpdateState(s balancer.State) {
	c.mu.Lock()
	c.pickers = append(c.pickers, s.Picker)
	c.states = append(c.states, s.ConnectivityState)
	c.state = s.ConnectivityState
	c.mu.Unlock()
}
func (c *ccc) ResolveNow(resolver.ResolveNowOptions) {}
func (c *ccc) Target() string                        { return "conc" }

func (c *ccc) picker(stale uint64) balancer.Picker {
	c.mu.Lock()
	defer c.mu.Unlock()
	if len(c.pickers) == 0 {
		return nil
	}
	if stale%3 == 0 {
		return c.pickers[int(stale/3)%len(c.pickers)]
	}
	return c.pickers[len(c.pickers)-1]
}

// ---- pool workload ---------------------------------------------------------------------------------

// PoolProg is a generated concurrent pool workload.
type PoolProg struct {
	Property string `json:"property,omitempty"`
	Kind     string `json:"kind"` // "pool" | "rr"
	Min      int    `json:"minSize"`
	Max      int    `json:"maxSize"`
	WM       int    `json:"watermark"`
	Fallback bool   `json:"fallback"`
	RR       bool   `json:"roundRobin"`
	UdMs     int    `json:"udMs"`
	UdCalls  int    `json:"udCalls"`
	G        int    `json:"goroutines"`
	Iter     int    `json:"iterations"`
	Flaps    int    `json:"flaps"`       // state flaps injected by the callback goroutine
	Resolves int    `json:"resolves"`    // resolver updates injected by the callback goroutine
	Hold     int    `json:"hold"`        // how many calls a goroutine keeps open
	DEPct    int    `json:"deadlinePct"` // share of calls that end with a client-side deadline error (0 = one third)
	Seed     uint64 `json:"seed"`
	Pert     int    `json:"perturbation"`
	Deaths   int    `json:"deaths,omitempty"`   // how often the callback goroutine reports SHUTDOWN for every connection of the pool (the pool empties; a resolver update re-creates it)
	Siblings int    `json:"siblings,omitempty"` // other balancers (own ClientConn, other locators) built, configured and closed while the workload runs
	Failure  string `json:"failure,omitempty"`
}

type cmsg struct {
	Key  string
	Keys []string
}

func ictx(parent context.Context, req, reply interface{}) context.Context {
	out := parent
	grpcgcp.GCPUnaryClientInterceptor(parent, "/m", req, reply, nil, func(ctx context.Context, _ string, _, _ interface{}, _ *grpc.ClientConn, _ ...grpc.CallOption) error {
		out = ctx
		return nil
	})
	return out
}

var deErr = status.Error(codes.DeadlineExceeded, context.DeadlineExceeded.Error())

// Stats of one run.
type Stats struct {
	Picks, Placed, Swaps, Refreshes, Grown, Overlap int
}

// RunPool executes the workload; returns "prop|message" on violation, "" otherwise.
func RunPool(p *PoolProg) (violation string, st Stats) {
	pertSeed.Store(p.Seed)
	pertLevel.Store(int32(p.Pert))
	defer pertLevel.Store(0)
	cfgJSON := fmt.Sprintf(`{"channelPool":{"minSize":%d,"maxSize":%d,"maxConcurrentStreamsLowWatermark":%d,"fallbackToReady":%v,"unresponsiveDetectionMs":%d,"unresponsiveCalls":%d%s},
 "method":[{"name":["/bind"],"affinity":{"command":"BIND","affinityKey":"key"}},{"name":["/bound"],"affinity":{"command":"BOUND","affinityKey":"key"}},{"name":["/unbind"],"affinity":{"command":"UNBIND","affinityKey":"key"}}]}`,
		p.Min, p.Max, p.WM, p.Fallback, p.UdMs, p.UdCalls, map[bool]string{true: `,"bindPickStrategy":"ROUND_ROBIN"`, false: ""}[p.RR])
	bb := balancer.Get("grpc_gcp")
	cfg, err := bb.(balancer.ConfigParser).ParseConfig([]byte(cfgJSON))
	if err != nil {
		return "C17|" + err.Error(), st
	}
	max := p.Max
	if max == 0 {
		max = 4
	}
	min := p.Min
	if min == 0 {
		min = 1
	}
	cc := &ccc{pending: map[int]int{}, removed: map[*csc]int{}, newConns: make(chan *csc, 256), max: max, minLEmax: min <= max && p.Deaths == 0} // the size counter of the fake does not follow shutdowns
	b := bb.Build(cc, balancer.BuildOptions{})
	addrA := []resolver.Address{{Addr: "A"}}
	addrB := []resolver.Address{{Addr: "B"}, {Addr: "B2"}}
	b.UpdateClientConnState(balancer.ClientConnState{ResolverState: resolver.State{Addresses: addrA}, BalancerConfig: cfg})

	lastAddrs := addrKey(addrA)
	var inCallback, overlap atomic.Int64
	stop := make(chan struct{})
	var cbDone sync.WaitGroup
	report := func(sc *csc, s connectivity.State) {
		cc.mu.Lock()
		cc.cbConn = sc
		cc.mu.Unlock()
		inCallback.Store(1)
		b.UpdateSubConnState(sc, balancer.SubConnState{ConnectivityState: s})
		inCallback.Store(0)
		cc.mu.Lock()
		cc.cbConn = nil
		cc.mu.Unlock()
	}
	bring := func() {
		for {
			select {
			case sc := <-cc.newConns:
				report(sc, connectivity.Connecting)
				report(sc, connectivity.Ready)
			default:
				return
			}
		}
	}
	bring()
	// sibling balancers of the same process: whatever the library keeps at package level is shared with them
	var sib sync.WaitGroup
	for k := 0; k < p.Siblings; k++ {
		sib.Add(1)
		go func(k int) {
			defer sib.Done()
			defer func() {
				if r := recover(); r != nil {
					cc.violate("C05", "sibling balancer panicked: %v", r)
				}
			}()
			time.Sleep(time.Duration(50+100*k) * time.Microsecond)
			j := fmt.Sprintf(`{"channelPool":{"minSize":1,"maxSize":2},"method":[{"name":["/s%d"],"affinity":{"command":"BOUND","affinityKey":"sibling%d.key"}},{"name":["/t%d"],"affinity":{"command":"BIND","affinityKey":"keys"}}]}`, k, k, k)
			cfg2, err := bb.(balancer.ConfigParser).ParseConfig([]byte(j))
			if err != nil {
				return
			}
			cc2 := &ccc{pending: map[int]int{}, removed: map[*csc]int{}, newConns: make(chan *csc, 256), max: 2, minLEmax: true}
			b2 := bb.Build(cc2, balancer.BuildOptions{})
			b2.UpdateClientConnState(balancer.ClientConnState{ResolverState: resolver.State{Addresses: []resolver.Address{{Addr: "S"}}}, BalancerConfig: cfg2})
			for {
				select {
				case sc := <-cc2.newConns:
					b2.UpdateSubConnState(sc, balancer.SubConnState{ConnectivityState: connectivity.Ready})
					continue
				default:
				}
				break
			}
			if pk := cc2.picker(0); pk != nil {
				ctx := ictx(context.Background(), &cmsg{Key: "sk"}, &cmsg{Key: "sk", Keys: []string{"sk"}})
				for _, m := range []string{fmt.Sprintf("/t%d", k), fmt.Sprintf("/s%d", k), "/plain"} {
					if res, err := pk.Pick(balancer.PickInfo{Ctx: ctx, FullMethodName: m}); err == nil && res.Done != nil {
						res.Done(balancer.DoneInfo{})
					}
				}
			}
			b2.Close()
		}(k)
	}
	cbDone.Add(1)
	go func() { // the serialized balancer callbacks
		defer cbDone.Done()
		r := p.Seed
		flaps, resolves, deaths := p.Flaps, p.Resolves, p.Deaths
		dead := map[*csc]bool{}
		for {
			select {
			case <-stop:
				bring()
				return
			default:
			}
			bring()
			r = mix(r)
			cc.mu.Lock()
			n := len(cc.all)
			var sc *csc
			if n > 0 {
				sc = cc.all[int(r>>8)%n]
				if cc.removed[sc] > 0 || dead[sc] {
					sc = nil
				}
			}
			cc.mu.Unlock()
			switch {
			case deaths > 0 && r%8 == 3:
				// every connection of the pool reports SHUTDOWN: picks on pickers published earlier meet an empty pool
				deaths--
				cc.mu.Lock()
				var live []*csc
				for _, x := range cc.all {
					if cc.removed[x] == 0 && !dead[x] {
						live = append(live, x)
					}
				}
				cc.mu.Unlock()
				for _, x := range live {
					dead[x] = true
					report(x, connectivity.Shutdown)
				}
				if r>>28%2 == 0 {
					time.Sleep(time.Duration(20+r>>32%300) * time.Microsecond)
				} else {
					runtime.Gosched()
				}
				inCallback.Store(1)
				b.UpdateClientConnState(balancer.ClientConnState{ResolverState: resolver.State{Addresses: append([]resolver.Address(nil), addrA...)}})
				inCallback.Store(0)
				lastAddrs = addrKey(addrA)
			case flaps > 0 && sc != nil && !sc.refresh && r%4 == 0:
				flaps--
				report(sc, []connectivity.State{connectivity.TransientFailure, connectivity.Idle, connectivity.Connecting}[r>>20%3])
				if r>>28%2 == 0 {
					time.Sleep(time.Duration(20+r>>32%400) * time.Microsecond) // the channel stays down for a while: keyed calls take the fallback path
				} else {
					runtime.Gosched()
				}
				report(sc, connectivity.Ready)
			case resolves > 0 && r%4 == 1:
				resolves--
				inCallback.Store(1)
				a := addrA
				if r>>16%2 == 0 {
					a = addrB
				}
				lastAddrs = addrKey(a)
				a = append([]resolver.Address(nil), a...) // a resolver hands out a fresh list every time
				b.UpdateClientConnState(balancer.ClientConnState{ResolverState: resolver.State{Addresses: a}})
				inCallback.Store(0)
			case r%16 == 2:
				b.ResolverError(fmt.Errorf("x"))
			default:
				runtime.Gosched()
			}
		}
	}()

	var wg sync.WaitGroup
	var picks, placed atomic.Int64
	var panicMsg atomic.Value
	perConn := sync.Map{} // *csc -> *atomic.Int64 (round-robin distribution)
	keys := []string{"k1", "k2", "k3"}
	for g := 0; g < p.G; g++ {
		wg.Add(1)
		go func(g int) {
			defer wg.Done()
			defer func() {
				if r := recover(); r != nil {
					buf := make([]byte, 4096)
					panicMsg.Store(fmt.Sprintf("panic: %v\n%s", r, buf[:runtime.Stack(buf, false)]))
				}
			}()
			me := gid()
			r := mix(p.Seed ^ uint64(g+1)*0x1234567)
			type open struct {
				done func(balancer.DoneInfo)
				sc   *csc
				err  error
				cncl context.CancelFunc
			}
			var held []open
			finish := func(o open) {
				cc.doneConn.Store(me, o.sc)
				o.done(balancer.DoneInfo{Err: o.err})
				cc.doneConn.Delete(me)
				o.cncl()
			}
			for i := 0; i < p.Iter; i++ {
				r = mix(r)
				pk := cc.picker(r >> 40)
				if pk == nil {
					runtime.Gosched()
					continue
				}
				key := keys[int(r>>4)%3]
				method, req, reply := "/plain", &cmsg{}, &cmsg{}
				kind := int(r>>8) % 8
				if p.Kind == "rr" {
					kind = 1
				}
				switch kind {
				case 1, 2:
					method, reply = "/bind", &cmsg{Key: key}
				case 3, 4:
					method, req = "/bound", &cmsg{Key: key}
				case 5:
					method, req = "/unbind", &cmsg{Key: key}
				}
				base := ictx(context.Background(), req, reply)
				var ctx context.Context
				var cancel context.CancelFunc
				var derr error
				switch {
				case p.UdMs > 0 && ((p.DEPct == 0 && r>>16%3 == 0) || (p.DEPct > 0 && int(r>>16%100) < p.DEPct)):
					ctx, cancel = context.WithDeadline(base, time.Now().Add(-time.Second)) // already expired: a client-side deadline call
					derr = deErr
				case method == "/bind" && p.RR:
					ctx, cancel = context.WithTimeout(base, 20*time.Millisecond)
				default:
					ctx, cancel = context.WithCancel(base)
					if r>>18%5 == 0 {
						derr = status.Error(codes.Unavailable, "u")
					}
				}
				picks.Add(1)
				if inCallback.Load() == 1 {
					overlap.Add(1)
				}
				res, err := pk.Pick(balancer.PickInfo{Ctx: ctx, FullMethodName: method})
				if err != nil {
					cancel()
					runtime.Gosched()
					continue
				}
				placed.Add(1)
				sc := res.SubConn.(*csc)
				sc.touch()
				if p.Kind == "rr" {
					v, _ := perConn.LoadOrStore(sc, new(atomic.Int64))
					v.(*atomic.Int64).Add(1)
				}
				if derr != nil && p.UdMs > 0 && derr == deErr {
					time.Sleep(time.Duration(p.UdMs)*time.Millisecond + 200*time.Microsecond) // beyond the detection window
				}
				held = append(held, open{res.Done, sc, derr, cancel})
				for len(held) > p.Hold {
					finish(held[0])
					held = held[1:]
				}
			}
			for _, o := range held {
				finish(o)
			}
		}(g)
	}
	// progress: everything finishes within the bound (normal: milliseconds)
	finished := make(chan struct{})
	go func() { wg.Wait(); close(stop); cbDone.Wait(); sib.Wait(); close(finished) }()
	select {
	case <-finished:
	case <-time.After(20 * time.Second):
		buf := make([]byte, 1<<20)
		return fmt.Sprintf("C06|workload did not finish within 20s (deadlock or lost wake-up); goroutines:\n%s", buf[:runtime.Stack(buf, true)]), st
	}
	cc.mu.Lock()
	st = Stats{Picks: int(picks.Load()), Placed: int(placed.Load()), Swaps: cc.swaps, Refreshes: cc.refreshes, Grown: cc.grown, Overlap: int(overlap.Load())}
	cc.mu.Unlock()
	if m := panicMsg.Load(); m != nil {
		return "C05|" + m.(string), st
	}
	if v := cc.violation.Load(); v != nil {
		return v.(string), st
	}
	pertLevel.Store(0)
	if p.Deaths > 0 {
		// the end-state rules below assume a pool that never lost a channel; this program is about the accesses (race
		// detector), panics and progress only
		return "", st
	}
	// C20: once everything is quiescent every connection that belongs to the pool uses the latest resolved list
	for {
		select {
		case sc := <-cc.newConns:
			report(sc, connectivity.Connecting)
			report(sc, connectivity.Ready)
			continue
		default:
		}
		break
	}
	cc.mu.Lock()
	for _, sc := range cc.all {
		sc.mu.Lock()
		a := sc.addrs
		sc.mu.Unlock()
		if cc.removed[sc] == 0 && a != lastAddrs {
			cc.violate("C20", "after the workload, connection %d (replacement=%v) of the pool has address list %q, the latest resolved list is %q", sc.id, sc.refresh, a, lastAddrs)
		}
	}
	cc.mu.Unlock()
	if v := cc.violation.Load(); v != nil {
		return v.(string), st
	}
	// quiescent drain (C02): every completion has run; n picks on the final picker land on n distinct channels
	for {
		select {
		case sc := <-cc.newConns:
			report(sc, connectivity.Connecting)
			report(sc, connectivity.Ready)
			continue
		default:
		}
		break
	}
	cc.mu.Lock()
	var final balancer.Picker
	if len(cc.pickers) > 0 {
		final = cc.pickers[len(cc.pickers)-1]
	}
	nslots, pendingAny := cc.slots, 0
	for _, n := range cc.pending {
		pendingAny += n
	}
	state := cc.state
	cc.mu.Unlock()
	if p.Kind == "rr" {
		// even distribution: G*Iter BIND picks over n channels (composition fixed: min=max)
		total, n := p.G*p.Iter, nslots
		if n > 0 && total%n == 0 && int(placed.Load()) == total {
			bad := ""
			perConn.Range(func(k, v interface{}) bool {
				if c := v.(*atomic.Int64).Load(); int(c) != total/n {
					bad = fmt.Sprintf("channel of conn %d received %d of %d round-robin BIND calls, want exactly %d on each of the %d channels", k.(*csc).id, c, total, total/n, n)
				}
				return true
			})
			if bad != "" {
				return "C09|" + bad, st
			}
		}
		return "", st
	}
	if final != nil && state == connectivity.Ready && pendingAny == 0 && p.WM >= 1 && !p.RR {
		seen := map[balancer.SubConn]bool{}
		var dones []func(balancer.DoneInfo)
		for i := 0; i < nslots; i++ {
			res, err := final.Pick(balancer.PickInfo{Ctx: context.Background(), FullMethodName: "/plain"})
			if err != nil {
				return fmt.Sprintf("C02|drain: pick %d of %d on an idle pool failed: %v", i, nslots, err), st
			}
			if seen[res.SubConn] {
				return fmt.Sprintf("C02|drain: after every call completed, %d picks did not land on %d distinct channels (conn %d twice): a stream count did not return to zero", nslots, nslots, res.SubConn.(*csc).id), st
			}
			seen[res.SubConn] = true
			dones = append(dones, res.Done)
		}
		for _, d := range dones {
			d(balancer.DoneInfo{})
		}
	}
	return "", st
}
