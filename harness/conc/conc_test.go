package conc

import (
	"encoding/json"
	"fmt"
	"os"
	"path/filepath"
	"strings"
	"testing"

	"pgregory.net/rapid"
	"verifharness/hx"
)

func TestMain(m *testing.M) {
	hx.Quiet()
	Install()
	code := m.Run()
	hx.Flush()
	os.Exit(code)
}

func genPool(t *rapid.T, prop string) *PoolProg {
	p := &PoolProg{Kind: "pool", Seed: rapid.Uint64().Draw(t, "seed"), Pert: rapid.SampledFrom([]int{1, 2, 2}).Draw(t, "pert"),
		G: rapid.IntRange(2, 8).Draw(t, "g"), Iter: rapid.IntRange(5, 40).Draw(t, "iter"), Hold: rapid.IntRange(0, 3).Draw(t, "hold")}
	switch prop {
	case "C09":
		n := rapid.IntRange(2, 5).Draw(t, "n")
		p.Kind, p.RR, p.Min, p.Max, p.WM = "rr", true, n, n, 100
		p.G = rapid.IntRange(2, 8).Draw(t, "rg")
		p.Iter = n * rapid.SampledFrom([]int{1, 2, 5, 40, 200, 400}).Draw(t, "k")
		p.Pert = rapid.SampledFrom([]int{0, 0, 1, 2}).Draw(t, "rrpert") // unperturbed tight loops overlap best
		p.Hold = 0
		return p
	case "C03":
		p.Min = rapid.IntRange(1, 2).Draw(t, "min")
		p.Max = p.Min + rapid.IntRange(0, 2).Draw(t, "maxd")
		p.WM = rapid.IntRange(1, 2).Draw(t, "wm")
		p.Hold = rapid.IntRange(1, 4).Draw(t, "hold3")
		p.Flaps = rapid.IntRange(0, 10).Draw(t, "flaps")
		p.UdMs, p.UdCalls = rapid.SampledFrom([]int{0, 0, 1}).Draw(t, "udms"), 1
		return p
	case "C07":
		p.Min = rapid.IntRange(1, 3).Draw(t, "min")
		p.Max = p.Min + rapid.IntRange(0, 1).Draw(t, "maxd")
		p.WM = rapid.SampledFrom([]int{1, 100}).Draw(t, "wm")
		p.UdMs, p.UdCalls = 1, rapid.IntRange(1, 2).Draw(t, "udcalls")
		p.Flaps = rapid.IntRange(0, 6).Draw(t, "flaps")
		p.Resolves = rapid.IntRange(0, 4).Draw(t, "resolves")
		p.Iter = rapid.IntRange(5, 20).Draw(t, "iter7")
		p.DEPct = rapid.SampledFrom([]int{0, 60, 100}).Draw(t, "depct")
		return p
	case "C20":
		p.Min = rapid.IntRange(1, 3).Draw(t, "min")
		p.Max = p.Min + rapid.IntRange(0, 1).Draw(t, "maxd")
		p.WM = rapid.SampledFrom([]int{1, 100}).Draw(t, "wm")
		p.UdMs, p.UdCalls = 1, 1
		p.DEPct = rapid.SampledFrom([]int{60, 100}).Draw(t, "depct")
		p.Resolves = rapid.IntRange(5, 60).Draw(t, "resolves")
		p.Flaps = rapid.IntRange(0, 4).Draw(t, "flaps")
		p.Iter = rapid.IntRange(5, 20).Draw(t, "iter20")
		return p
	case "C06":
		p.Min = rapid.IntRange(1, 3).Draw(t, "min")
		p.Max = p.Min + rapid.IntRange(0, 2).Draw(t, "maxd")
		p.WM = rapid.SampledFrom([]int{1, 2, 100}).Draw(t, "wm")
		p.Fallback = rapid.Bool().Draw(t, "fb")
		p.RR = rapid.IntRange(0, 3).Draw(t, "rr") == 0
		p.UdMs, p.UdCalls = rapid.SampledFrom([]int{0, 1, 1, 1}).Draw(t, "udms"), 1
		p.DEPct = rapid.SampledFrom([]int{0, 60, 100}).Draw(t, "depct")
		p.Flaps = rapid.IntRange(0, 20).Draw(t, "flaps")
		p.Resolves = rapid.IntRange(0, 40).Draw(t, "resolves")
		p.Iter = rapid.IntRange(5, 25).Draw(t, "iter6")
		return p
	}
	p.Min = rapid.IntRange(1, 3).Draw(t, "min")
	p.Max = p.Min + rapid.IntRange(0, 2).Draw(t, "maxd")
	p.WM = rapid.SampledFrom([]int{1, 2, 100}).Draw(t, "wm")
	p.Fallback = rapid.Bool().Draw(t, "fb")
	p.RR = rapid.IntRange(0, 3).Draw(t, "rr") == 0
	p.UdMs, p.UdCalls = rapid.SampledFrom([]int{0, 1, 1}).Draw(t, "udms"), 1
	p.Flaps = rapid.IntRange(0, 10).Draw(t, "flaps")
	p.Resolves = rapid.IntRange(0, 5).Draw(t, "resolves")
	p.Siblings = rapid.SampledFrom([]int{0, 0, 1, 3}).Draw(t, "siblings")
	if rapid.IntRange(0, 3).Draw(t, "deathprog") == 0 {
		// the pool is emptied by shutdowns while BIND calls run on stale pickers (no refreshes: the fake's bookkeeping of replacements does not follow shutdowns)
		p.Deaths = rapid.IntRange(1, 6).Draw(t, "deaths")
		p.UdMs, p.Flaps = 0, rapid.IntRange(0, 3).Draw(t, "dflaps")
		p.RR = rapid.IntRange(0, 2).Draw(t, "drr") != 0
		if p.RR && rapid.Bool().Draw(t, "dkind") {
			p.Kind = "rr"
		}
		p.Iter = rapid.IntRange(20, 60).Draw(t, "diter")
	}
	return p
}

var knownPrinted = map[string]bool{}

// knownFinding returns the text of the open finding with that id (known_findings.json), or "".
func knownFinding(id string) string {
	b, err := os.ReadFile(os.Getenv("VERIF_KNOWN"))
	if err != nil {
		return ""
	}
	var k struct {
		Findings []struct{ Property, Status, ID, What string }
	}
	if json.Unmarshal(b, &k) != nil {
		return ""
	}
	for _, x := range k.Findings {
		if x.ID == id && x.Status == "open" {
			return x.What
		}
	}
	return ""
}

// split "prop|message"
func split(v string) (string, string) {
	if i := strings.Index(v, "|"); i > 0 {
		return v[:i], v[i+1:]
	}
	return "", v
}

// raceLogSize is the total size of the race detector's report files (GORACE log_path).
func raceLog() (int64, string) {
	prefix := os.Getenv("VERIF_RACE_LOG")
	if prefix == "" {
		return 0, ""
	}
	m, _ := filepath.Glob(prefix + ".*")
	var n int64
	var text []byte
	for _, f := range m {
		b, _ := os.ReadFile(f)
		n += int64(len(b))
		text = append(text, b...)
	}
	return n, string(text)
}

func runConc(t *testing.T, prop string, race bool) {
	st := hx.For(prop)
	judge := func(prog interface{}, v string, labels map[string]int, nt bool) string {
		if v != "" {
			vp, msg := split(v)
			if strings.Contains(","+vp+",", ","+prop+",") {
				st.Failed()
				b, _ := json.Marshal(prog)
				var m map[string]interface{}
				json.Unmarshal(b, &m)
				m["property"], m["failure"] = prop, msg
				hx.WriteReplay(prop, m)
				return msg
			}
			labels["aborted-by-other-property-"+vp]++
		}
		st.Case(1, labels, nt, prog)
		return ""
	}
	one0 := func(kind string, raw []byte, rt *rapid.T) string { return "" }
	one := func(kind string, raw []byte, rt *rapid.T) string {
		before, _ := raceLog()
		f := one0(kind, raw, rt)
		if after, text := raceLog(); race && f == "" && after > before {
			report := text[before:]
			if len(report) > 6000 {
				report = report[:6000]
			}
			var m map[string]interface{}
			json.Unmarshal(raw, &m)
			m["property"], m["failure"] = prop, "data race reported while this program ran:\n"+report
			hx.WriteReplay(prop, m)
			st.Failed()
			return "data race:\n" + report
		}
		return f
	}
	one0 = func(kind string, raw []byte, rt *rapid.T) string {
		switch kind {
		case "me":
			var p MEProg
			json.Unmarshal(raw, &p)
			return judge(&p, RunME(&p), map[string]int{"me-workload": 1}, p.G >= 2)
		case "gme":
			var p GMEProg
			json.Unmarshal(raw, &p)
			return judge(&p, RunGME(&p), map[string]int{"gme-workload": 1}, p.G >= 2 && p.Updates > 0)
		}
		var p PoolProg
		json.Unmarshal(raw, &p)
		v, s := RunPool(&p)
		l := map[string]int{"pool-workload": 1, "picks": s.Picks, "placed": s.Placed, "swaps-under-load": s.Swaps, "refreshes-under-load": s.Refreshes, "growth-under-load": s.Grown - p.Min, "picks-overlapping-a-callback": s.Overlap}
		return judge(&p, v, l, s.Overlap > 0 || s.Swaps > 0 || s.Grown > p.Min || p.Kind == "rr")
	}
	replay := func(path string) {
		raw, err := os.ReadFile(path)
		if err != nil {
			t.Fatal(err)
		}
		var k struct {
			Kind string `json:"kind"`
		}
		json.Unmarshal(raw, &k)
		for i := 0; i < 20; i++ { // schedules are not owned: a replay is repeated
			if f := one(k.Kind, raw, nil); f != "" {
				t.Fatalf("%s: %s", path, f)
			}
		}
	}
	if p := hx.ReplayIn(); p != "" {
		replay(p)
		return
	}
	rapid.Check(t, func(rt *rapid.T) {
		var prog interface{}
		kind := "pool"
		if race || prop == "C15" || prop == "C16" {
			w := rapid.IntRange(0, 5).Draw(rt, "workload")
			if !race {
				w = 1
			}
			switch w {
			case 0:
				kind = "me"
				prog = &MEProg{Kind: "me", RUs: rapid.SampledFrom([]int{0, 50, 1000}).Draw(rt, "r"), DUs: rapid.SampledFrom([]int{0, 50, 1000}).Draw(rt, "d"), G: rapid.IntRange(2, 6).Draw(rt, "g"), Iter: rapid.IntRange(20, 200).Draw(rt, "iter"), Seed: rapid.Uint64().Draw(rt, "seed"), Pert: 2, Shared: rapid.IntRange(0, 2).Draw(rt, "shared") == 0}
			case 1:
				kind = "gme"
				prog = &GMEProg{Kind: "gme", G: rapid.IntRange(2, 5).Draw(rt, "g"), Iter: rapid.IntRange(5, 30).Draw(rt, "iter"), Updates: rapid.IntRange(0, 6).Draw(rt, "upd"), Outages: rapid.IntRange(0, 4).Draw(rt, "out"), Updaters: rapid.IntRange(1, 2).Draw(rt, "updaters"), ExtCloseAll: rapid.IntRange(0, 2).Draw(rt, "extcloseall") == 0, Seed: rapid.Uint64().Draw(rt, "seed"), Pert: rapid.SampledFrom([]int{2, 2, 3}).Draw(rt, "gmepert"),
					CloseEarly: (race || prop == "C16") && rapid.IntRange(0, 2).Draw(rt, "closeEarly") == 0}
			}
		}
		if prog == nil {
			prog = genPool(rt, prop)
		}
		raw, _ := json.Marshal(prog)
		if f := one(kind, raw, rt); f != "" {
			rt.Fatalf("%s", f)
		}
	})
	st.SetExtra("yield-point-executions", fmt.Sprint(Yields.Load()))
}

func TestC10(t *testing.T)     { runConc(t, "C10", true) }
func TestConcC02(t *testing.T) { runConc(t, "C02", false) }
func TestConcC20(t *testing.T) { runConc(t, "C20", false) }
func TestConcC15(t *testing.T) { runConc(t, "C15", false) }
func TestConcC16(t *testing.T) { runConc(t, "C16", false) }
func TestConcC03(t *testing.T) { runConc(t, "C03", false) }
func TestConcC05(t *testing.T) { runConc(t, "C05", false) }
func TestConcC06(t *testing.T) { runConc(t, "C06", false) }
func TestConcC07(t *testing.T) { runConc(t, "C07", false) }
func TestConcC09(t *testing.T) { runConc(t, "C09", false) }

func runSched(t *testing.T, prop string, kinds []string) {
	st := hx.For(prop)
	one := func(p *SchedProg) string {
		v, steps := RunSched(p)
		if prop == "C07" && strings.Contains(v, "[stale-refresh-decision]") {
			if k := knownFinding("stale-refresh-decision"); k != "" {
				if !knownPrinted[k] {
					knownPrinted[k] = true
					fmt.Printf("KNOWN-FINDING: property=C07 %s\n", k)
				}
				st.Label("case-ends-in-a-known-finding", 1)
				v = ""
			}
		}
		if v != "" {
			vp, msg := split(v)
			if strings.Contains(","+vp+",", ","+prop+",") {
				st.Failed()
				p.Failure, p.Property = msg, prop
				hx.WriteReplay(prop, p)
				return msg
			}
			st.Label("aborted-by-other-property-"+vp, 1)
		}
		st.Case(steps, map[string]int{"scheduled-program-" + p.Kind: 1, "scheduled-steps": steps}, steps >= 6, p)
		return ""
	}
	if path := hx.ReplayIn(); path != "" {
		var p SchedProg
		if err := hx.Load(path, &p); err != nil {
			t.Fatal(err)
		}
		p.Failure = ""
		for i := 0; i < 3; i++ {
			if f := one(&p); f != "" {
				t.Fatalf("replay %s: %s", path, f)
			}
		}
		return
	}
	rapid.Check(t, func(rt *rapid.T) {
		p := &SchedProg{Kind: rapid.SampledFrom(kinds).Draw(rt, "kind"), Max: rapid.IntRange(2, 3).Draw(rt, "max"), NPick: rapid.IntRange(2, 3).Draw(rt, "npick"),
			UdCalls: rapid.IntRange(1, 2).Draw(rt, "udcalls"), Extra: rapid.IntRange(0, 95).Draw(rt, "extra"),
			Mode: rapid.SampledFrom([]string{"pct", "pct", "pct", "random"}).Draw(rt, "mode")}
		if p.Mode == "pct" {
			p.Prio = rapid.SliceOfN(rapid.IntRange(0, 7), 5, 5).Draw(rt, "priorities")
			p.Changes = rapid.SliceOfN(rapid.IntRange(0, 40), 0, 3).Draw(rt, "changePoints")
		} else {
			p.Choices = rapid.SliceOfN(rapid.IntRange(0, 5), 0, 80).Draw(rt, "schedule")
		}
		if f := one(p); f != "" {
			rt.Fatalf("%s", f)
		}
	})
}

func TestSchedC03(t *testing.T) { runSched(t, "C03", []string{"sched-growth", "sched-rrempty"}) }
func TestSchedC07(t *testing.T) { runSched(t, "C07", []string{"sched-refresh", "sched-bindswap"}) }
func TestSchedC01(t *testing.T) { runSched(t, "C01", []string{"sched-bindswap"}) }
func TestSchedC02(t *testing.T) { runSched(t, "C02", []string{"sched-spread"}) }
func TestSchedC06(t *testing.T) {
	runSched(t, "C06", []string{"sched-lockorder", "sched-lockorder", "sched-growth", "sched-refresh", "sched-rr", "sched-rr"})
}
func TestSchedC09(t *testing.T) { runSched(t, "C09", []string{"sched-rr"}) }
func TestSchedC20(t *testing.T) { runSched(t, "C20", []string{"sched-addr"}) }
func TestSchedC08(t *testing.T) { runSched(t, "C08", []string{"sched-fallback"}) }
func TestSchedC12(t *testing.T) { runSched(t, "C12", []string{"sched-stream"}) }
