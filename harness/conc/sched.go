package conc

// A cooperative scheduler over the injected yield points: registered task goroutines park at every
// verifYield (and at harness-level Pause/WaitUntil points); the scheduler resumes exactly one task
// at a time, chosen by a schedule vector drawn by rapid, and then *settles*: it waits until every
// task is parked, finished, or really waiting inside the runtime (mutex, cond, channel, select,
// sleep) - the wait reason is read from the goroutine headers of runtime.Stack. So "blocked" is
// observed, not guessed from a timeout, and the next decision is a function of the choices made so
// far. No task parked, some waiting, nothing happening for 300 ms => deadlock.

import (
	"fmt"
	"regexp"
	"runtime"
	"strconv"
	"strings"
	"sync"
	"sync/atomic"
	"time"
)

type taskState int32

const (
	tsNew taskState = iota
	tsParked
	tsRunning
	tsDone
)

// Task is a scheduled goroutine.
type Task struct {
	id     int
	name   string
	gid    uint64
	state  atomic.Int32
	site   string
	resume chan struct{}
	cond   func() bool // WaitUntil predicate (evaluated by the scheduler while everything is stopped)
	panicv interface{}
}

// Sched owns the interleaving of its tasks.
type Sched struct {
	tasks  []*Task
	byGid  sync.Map
	events chan int
	Trace  []string
	Steps  int
}

var activeSched atomic.Pointer[Sched]

// NewSched creates a scheduler and makes it the target of the library's yield hooks.
func NewSched() *Sched {
	s := &Sched{events: make(chan int, 1024)}
	activeSched.Store(s)
	return s
}

// Close detaches the scheduler.
func (s *Sched) Close() { activeSched.CompareAndSwap(s, nil) }

// Go registers a task. It starts parked.
func (s *Sched) Go(name string, f func()) *Task {
	t := &Task{id: len(s.tasks), name: name, resume: make(chan struct{}, 1)}
	s.tasks = append(s.tasks, t)
	started := make(chan struct{})
	go func() {
		t.gid = gid()
		s.byGid.Store(t.gid, t)
		t.site = "start"
		t.state.Store(int32(tsParked))
		close(started)
		<-t.resume
		defer func() {
			if r := recover(); r != nil {
				buf := make([]byte, 4096)
				t.panicv = fmt.Sprintf("%v\n%s", r, buf[:runtime.Stack(buf, false)])
			}
			s.byGid.Delete(t.gid)
			t.state.Store(int32(tsDone))
			s.events <- t.id
		}()
		f()
	}()
	<-started
	return t
}

func (s *Sched) park(site string, cond func() bool) {
	v, ok := s.byGid.Load(gid())
	if !ok {
		return // not a task (library-spawned goroutine, or the harness itself)
	}
	if activeSched.Load() != s {
		// the scheduler is gone (run finished or aborted): do not park any more
		for i := 0; cond != nil && !cond() && i < 2000; i++ {
			time.Sleep(100 * time.Microsecond)
		}
		return
	}
	t := v.(*Task)
	t.site, t.cond = site, cond
	t.state.Store(int32(tsParked))
	s.events <- t.id
	<-t.resume
	t.cond = nil
}

// Pause is a harness-level yield point.
func (s *Sched) Pause(site string) { s.park(site, nil) }

// WaitUntil parks the calling task until cond holds (cond is evaluated by the scheduler).
func (s *Sched) WaitUntil(site string, cond func() bool) { s.park(site, cond) }

var hdrRe = regexp.MustCompile(`(?m)^goroutine (\d+) \[([^\],]+)`)

// waitStates maps goroutine id -> wait reason for all goroutines.
func waitStates() map[uint64]string {
	buf := make([]byte, 1<<18)
	for {
		n := runtime.Stack(buf, true)
		if n < len(buf) {
			buf = buf[:n]
			break
		}
		buf = make([]byte, 2*len(buf))
	}
	out := map[uint64]string{}
	for _, m := range hdrRe.FindAllSubmatch(buf, -1) {
		id, _ := strconv.ParseUint(string(m[1]), 10, 64)
		out[id] = string(m[2])
	}
	return out
}

func active(reason string) bool {
	switch {
	case reason == "running", reason == "runnable", reason == "syscall", strings.HasPrefix(reason, "GC"), reason == "preempted", reason == "copystack":
		return true
	}
	return false
}

// settle waits until no task is executing: each one is parked, done or waiting in the runtime.
// It returns the set of tasks blocked inside the library.
func (s *Sched) settle() (blocked []*Task) {
	quiet := 0
	for spins := 0; ; spins++ {
		drained := false
		for {
			select {
			case <-s.events:
				drained = true
				continue
			default:
			}
			break
		}
		running := false
		var ws map[uint64]string
		blocked = blocked[:0]
		for _, t := range s.tasks {
			if taskState(t.state.Load()) != tsRunning {
				continue
			}
			if ws == nil {
				ws = waitStates()
			}
			r, ok := ws[t.gid]
			if !ok || active(r) {
				running = true
			} else {
				blocked = append(blocked, t)
			}
		}
		if !running && !drained {
			quiet++
			if quiet >= 2 {
				return blocked
			}
		} else {
			quiet = 0
		}
		if spins < 50 {
			runtime.Gosched()
		} else {
			time.Sleep(20 * time.Microsecond)
		}
	}
}

// Result of a scheduled run.
type SchedResult struct {
	Deadlock string
	Panic    string
	Steps    int
}

// Run drives the tasks to completion following choices (index modulo the number of enabled tasks;
// when the vector is exhausted the lowest enabled task runs). check runs after every step while
// everything is stopped; a non-empty result ends the run.
func (s *Sched) Run(choices []int, maxSteps int, check func() string) (res SchedResult, violation string) {
	ci := 0
	return s.RunWith(func(enabled []*Task, step int) *Task {
		c := 0
		if ci < len(choices) {
			c = choices[ci]
			ci++
		}
		return enabled[c%len(enabled)]
	}, maxSteps, check)
}

// PCT returns a chooser implementing probabilistic concurrency testing (Burckhardt et al.): every task
// has a priority (prio: a permutation, drawn), the highest-priority enabled task always runs, and at
// each of the drawn change points (step numbers) the running task's priority drops below all others.
// Bugs that need d ordering constraints are hit with probability >= 1/(n*k^(d-1)).
func (s *Sched) PCT(prio []int, changes []int) func(enabled []*Task, step int) *Task {
	pr := map[int]int{}
	for i, t := range s.tasks {
		p := 100 + i
		if i < len(prio) {
			p = 100 + prio[i]*8 + i
		}
		pr[t.id] = p
	}
	low := 50
	return func(enabled []*Task, step int) *Task {
		best := enabled[0]
		for _, t := range enabled[1:] {
			if pr[t.id] > pr[best.id] {
				best = t
			}
		}
		for _, c := range changes {
			if c == step {
				pr[best.id] = low
				low--
				best = enabled[0]
				for _, t := range enabled[1:] {
					if pr[t.id] > pr[best.id] {
						best = t
					}
				}
			}
		}
		return best
	}
}

// RunWith drives the tasks to completion; choose picks the next task among the enabled ones.
func (s *Sched) RunWith(choose func(enabled []*Task, step int) *Task, maxSteps int, check func() string) (res SchedResult, violation string) {
	defer s.Close()
	idle := 0
	for step := 0; step < maxSteps; step++ {
		blocked := s.settle()
		for _, t := range s.tasks {
			if t.panicv != nil {
				res.Panic = fmt.Sprintf("task %s: %v", t.name, t.panicv)
				return res, ""
			}
		}
		if check != nil {
			if v := check(); v != "" {
				res.Steps = step
				return res, v
			}
		}
		var enabled []*Task
		alldone := true
		for _, t := range s.tasks {
			switch taskState(t.state.Load()) {
			case tsParked:
				alldone = false
				if t.cond == nil || t.cond() {
					enabled = append(enabled, t)
				}
			case tsRunning:
				alldone = false
			}
		}
		if alldone {
			res.Steps = step
			return res, ""
		}
		if len(enabled) == 0 {
			// nothing can be scheduled: tasks wait inside the library (or for a predicate). Timers (tickers,
			// context deadlines) may still release them.
			idle++
			if idle > 15 {
				var d []string
				for _, t := range s.tasks {
					if st := taskState(t.state.Load()); st != tsDone {
						d = append(d, fmt.Sprintf("%s@%s(state %d)", t.name, t.site, st))
					}
				}
				_ = blocked
				res.Deadlock = fmt.Sprintf("no task can run for 300ms: %s; trace tail: %v", strings.Join(d, ", "), tail(s.Trace, 12))
				res.Steps = step
				return res, ""
			}
			time.Sleep(20 * time.Millisecond)
			step--
			continue
		}
		idle = 0
		t := choose(enabled, step)
		s.Trace = append(s.Trace, t.name+"@"+t.site)
		t.state.Store(int32(tsRunning))
		t.resume <- struct{}{}
	}
	res.Steps = maxSteps
	// out of steps: let everything run free to finish
	s.Close()
	for _, t := range s.tasks {
		if taskState(t.state.Load()) == tsParked {
			t.state.Store(int32(tsRunning))
			t.resume <- struct{}{}
		}
	}
	return res, ""
}

// Drain releases every parked task (used after a violation so that goroutines do not leak).
func (s *Sched) Drain() {
	s.Close()
	for i := 0; i < 200; i++ {
		alldone := true
		for _, t := range s.tasks {
			switch taskState(t.state.Load()) {
			case tsParked:
				alldone = false
				t.state.Store(int32(tsRunning))
				select {
				case t.resume <- struct{}{}:
				default:
				}
			case tsRunning:
				alldone = false
			}
		}
		if alldone {
			return
		}
		time.Sleep(time.Millisecond)
	}
}

func tail(l []string, n int) []string {
	if len(l) > n {
		return l[len(l)-n:]
	}
	return l
}
