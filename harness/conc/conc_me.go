package conc

import (
	"context"
	"fmt"
	"google.golang.org/grpc"
	"runtime"
	"sync"
	"time"

	"github.com/GoogleCloudPlatform/grpc-gcp-go/grpcgcp"
	pb "github.com/GoogleCloudPlatform/grpc-gcp-go/grpcgcp/grpc_gcp"
	"github.com/GoogleCloudPlatform/grpc-gcp-go/grpcgcp/multiendpoint"
	hw "github.com/GoogleCloudPlatform/grpc-gcp-go/grpcgcp/test_grpc/helloworld/helloworld"
	"verifharness/gmesim"
)

// MEProg is a concurrent workload on one multiendpoint.MultiEndpoint with real timers.
type MEProg struct {
	Property string `json:"property,omitempty"`
	Kind     string `json:"kind"` // "me"
	RUs      int    `json:"recoveryUs"`
	DUs      int    `json:"delayUs"`
	G        int    `json:"goroutines"`
	Iter     int    `json:"iterations"`
	Seed     uint64 `json:"seed"`
	Pert     int    `json:"perturbation"`
	// Shared: the application keeps one endpoint list (it names an endpoint twice) and hands the same slice to two
	// MultiEndpoints from two goroutines while a third reads it: the library may read the list, it must not write it
	Shared  bool   `json:"sharedList,omitempty"`
	Failure string `json:"failure,omitempty"`
}

var meUniverse = []string{"a", "b", "c", "d"}

// RunME executes the workload. Besides the race detector it checks membership of Current().
func RunME(p *MEProg) string {
	pertSeed.Store(p.Seed)
	pertLevel.Store(int32(p.Pert))
	defer pertLevel.Store(0)
	me, err := multiendpoint.NewMultiEndpoint(&multiendpoint.MultiEndpointOptions{Endpoints: []string{"a", "b", "c"}, RecoveryTimeout: time.Duration(p.RUs) * time.Microsecond, SwitchingDelay: time.Duration(p.DUs) * time.Microsecond})
	if err != nil {
		return "C13|" + err.Error()
	}
	var wg sync.WaitGroup
	var bad sync.Map
	if p.Shared {
		shared := [][]string{{"a", "b", "b", "c"}, {"c", "c"}, {"a", "b", "c", "a", "d", "b"}, {"d", "a"}}[p.Seed%4]
		want := append([]string(nil), shared...)
		me2, err := multiendpoint.NewMultiEndpoint(&multiendpoint.MultiEndpointOptions{Endpoints: shared})
		if err != nil {
			return "C13|" + err.Error()
		}
		for k := 0; k < 3; k++ {
			wg.Add(1)
			go func(k int) {
				defer wg.Done()
				for i := 0; i < p.Iter; i++ {
					switch k {
					case 0:
						me.SetEndpoints(shared)
					case 1:
						me2.SetEndpoints(shared)
					default:
						for j := range shared {
							if shared[j] != want[j] {
								bad.Store("shared", fmt.Sprintf("the application's endpoint list changed: %v, was %v", shared, want))
							}
						}
					}
					if i%4 == 0 {
						runtime.Gosched()
					}
				}
			}(k)
		}
	}
	for g := 0; g < p.G; g++ {
		wg.Add(1)
		go func(g int) {
			defer wg.Done()
			defer func() {
				if r := recover(); r != nil {
					bad.Store("panic", fmt.Sprint(r))
				}
			}()
			r := mix(p.Seed ^ uint64(g+7)*0x9191)
			for i := 0; i < p.Iter; i++ {
				r = mix(r)
				switch (g + int(r>>3)) % 4 {
				case 0:
					cur := me.Current()
					ok := false
					for _, e := range meUniverse {
						if e == cur {
							ok = true
						}
					}
					if !ok {
						bad.Store("member", cur)
					}
				case 1, 2:
					me.SetEndpointAvailability(meUniverse[int(r>>8)%4], r>>16%2 == 0)
				case 3:
					k := 1 + int(r>>8)%3
					l := []string{}
					for j := 0; j < k; j++ {
						e := meUniverse[(int(r>>12)+j)%4]
						l = append(l, e)
					}
					if g == 0 && !p.Shared { // list replacements come from one goroutine, like UpdateMultiEndpoints does
						me.SetEndpoints(l)
					} else {
						me.Current()
					}
				}
				if r%8 == 0 {
					runtime.Gosched()
				}
			}
		}(g)
	}
	fin := make(chan struct{})
	go func() { wg.Wait(); close(fin) }()
	select {
	case <-fin:
	case <-time.After(20 * time.Second):
		return "C06|multiendpoint workload did not finish within 20s"
	}
	time.Sleep(time.Duration(p.RUs+p.DUs+200) * time.Microsecond) // let pending timers fire
	if v, ok := bad.Load("panic"); ok {
		return "C05|panic in multiendpoint workload: " + v.(string)
	}
	if v, ok := bad.Load("shared"); ok {
		return "C10,C13|" + v.(string)
	}
	return ""
}

// GMEProg is a concurrent workload on a GCPMultiEndpoint over in-memory servers.
type GMEProg struct {
	Property    string `json:"property,omitempty"`
	Kind        string `json:"kind"` // "gme"
	G           int    `json:"goroutines"`
	Iter        int    `json:"iterations"`
	Updates     int    `json:"updates"`
	Outages     int    `json:"outages"`
	Updaters    int    `json:"updaters,omitempty"`            // goroutines calling UpdateMultiEndpoints concurrently (default 1)
	ExtCloseAll bool   `json:"appClosesPoolsFirst,omitempty"` // before Close() the application closes every pool connection it handed out through its DialFunc: Close() then gets an error from every pool
	CloseEarly  bool   `json:"closeEarly,omitempty"`          // Close() is called while the updaters are still at work (an application shutting down under a configuration watcher)
	Seed        uint64 `json:"seed"`
	Pert        int    `json:"perturbation"`
	Failure     string `json:"failure,omitempty"`
}

// dialRec is gmesim.Dial that remembers the connections it has handed out.
var dialedMu sync.Mutex
var dialedConns []*grpc.ClientConn

func dialRec(ctx context.Context, target string, dopts ...grpc.DialOption) (*grpc.ClientConn, error) {
	c, err := gmesim.Dial(ctx, target, dopts...)
	if err == nil && c != nil {
		dialedMu.Lock()
		dialedConns = append(dialedConns, c)
		dialedMu.Unlock()
	}
	return c, err
}

// RunGME: RPCs on several MultiEndpoint names || UpdateMultiEndpoints || outages || GCPConfig().
func RunGME(p *GMEProg) string {
	pertSeed.Store(p.Seed)
	pertLevel.Store(int32(p.Pert))
	defer pertLevel.Store(0)
	dialedMu.Lock()
	dialedConns = nil
	dialedMu.Unlock()
	eps := gmesim.EPNames
	for _, e := range eps {
		gmesim.SetUp(e, true)
	}
	var lastMu sync.Mutex
	last := map[string][]string{}
	mkOK := func(r uint64, faults bool) *grpcgcp.GCPMultiEndpointOptions {
		mes := map[string]*multiendpoint.MultiEndpointOptions{}
		names := []string{"d", "r", "w"}
		n := 1 + int(r%3)
		for i := 0; i < n; i++ {
			k := 1 + int(r>>(4*uint(i+1)))%3
			var l []string
			for j := 0; j < k; j++ {
				l = append(l, eps[(int(r>>(3*uint(i+2)))+j)%len(eps)])
			}
			if faults && (r>>41)%4 == 0 && i == int(r>>43)%n {
				// an endpoint whose dial fails: the update is refused after some pools may have been dialed already
				l = append(l, fmt.Sprintf("unknown-endpoint-%d", (r>>45)%3))
			}
			mes[names[i]] = &multiendpoint.MultiEndpointOptions{Endpoints: l}
		}
		return &grpcgcp.GCPMultiEndpointOptions{GRPCgcpConfig: &pb.ApiConfig{ChannelPool: &pb.ChannelPoolConfig{MinSize: 1, MaxSize: 2}}, MultiEndpoints: mes, Default: "d", DialFunc: dialRec}
	}
	mk := func(r uint64) *grpcgcp.GCPMultiEndpointOptions { return mkOK(r, true) }
	gme, err := grpcgcp.NewGCPMultiEndpoint(mkOK(p.Seed, false))
	if err != nil {
		return "C15|" + err.Error()
	}
	client := hw.NewGreeterClient(gme)
	var wg sync.WaitGroup
	var bad sync.Map
	stop := make(chan struct{})
	for g := 0; g < p.G; g++ {
		wg.Add(1)
		go func(g int) {
			defer wg.Done()
			defer func() {
				if r := recover(); r != nil {
					buf := make([]byte, 2048)
					bad.Store("panic", fmt.Sprintf("%v\n%s", r, buf[:runtime.Stack(buf, false)]))
				}
			}()
			r := mix(p.Seed ^ uint64(g+3)*0x777)
			for i := 0; i < p.Iter; i++ {
				r = mix(r)
				ctx, cancel := context.WithTimeout(context.Background(), 20*time.Millisecond)
				if n := []string{"", "d", "r", "w", "zz"}[int(r>>5)%5]; n != "" {
					ctx = grpcgcp.NewMEContext(ctx, n)
				}
				if r>>9%4 == 0 {
					gme.GCPConfig()
				}
				client.SayHello(ctx, &hw.HelloRequest{Name: "x"})
				cancel()
			}
		}(g)
	}
	var ug sync.WaitGroup
	nu := p.Updaters
	if nu < 1 {
		nu = 1
	}
	for u := 0; u < nu; u++ {
		ug.Add(1)
		go func(u int) {
			defer ug.Done()
			defer func() {
				if r := recover(); r != nil {
					bad.Store("panic", fmt.Sprint(r))
				}
			}()
			r := mix(p.Seed*31 + uint64(u)*977)
			for i := 0; i < p.Updates+p.Outages; i++ {
				select {
				case <-stop:
					return
				default:
				}
				r = mix(r)
				if (i%2 == 0 && i/2 < p.Updates) || u > 0 {
					o := mk(r)
					if gme.UpdateMultiEndpoints(o) == nil && nu == 1 {
						lastMu.Lock()
						last = map[string][]string{}
						for n, meo := range o.MultiEndpoints {
							last[n] = meo.Endpoints
						}
						lastMu.Unlock()
					}
				} else {
					e := eps[int(r>>7)%len(eps)]
					gmesim.SetUp(e, false)
					time.Sleep(300 * time.Microsecond)
					gmesim.SetUp(e, true)
				}
				time.Sleep(time.Duration(50+r%200) * time.Microsecond)
			}
		}(u)
	}
	fin := make(chan struct{})
	closedEarly := false
	go func() {
		wg.Wait()
		if p.CloseEarly {
			time.Sleep(time.Duration(p.Seed%300) * time.Microsecond)
			func() {
				defer func() {
					if r := recover(); r != nil {
						bad.Store("panic", fmt.Sprintf("Close: %v", r))
					}
				}()
				gme.Close()
			}()
			closedEarly = true
			time.Sleep(200 * time.Microsecond) // a few more updates hit the closed object
		}
		close(stop)
		ug.Wait()
		close(fin)
	}()
	select {
	case <-fin:
	case <-time.After(30 * time.Second):
		return "C06|GCPMultiEndpoint workload did not finish within 30s"
	}
	if closedEarly {
		if v, ok := bad.Load("panic"); ok {
			return "C16,C15|panic in GCPMultiEndpoint workload: " + v.(string)
		}
		// C16: Close released everything, also what an update in flight or a later update had dialed
		for _, e := range eps {
			for dl := time.Now().Add(5 * time.Second); gmesim.Live(e) > 0; time.Sleep(time.Millisecond) {
				if time.Now().After(dl) {
					return fmt.Sprintf("C16|5s after Close() (called while UpdateMultiEndpoints calls were in flight) endpoint %s still has %d transport connections: a pool outlived the object", e, gmesim.Live(e))
				}
			}
		}
		return ""
	}
	defer func() {
		if p.ExtCloseAll {
			// the application shuts its connections down itself, then the object: every pool's Close() fails now, and
			// Close() reports that (the race detector watches how it collects the errors)
			dialedMu.Lock()
			l := dialedConns
			dialedMu.Unlock()
			for _, c := range l {
				c.Close()
			}
		}
		func() {
			defer func() { recover() }()
			gme.Close()
		}()
	}()
	if v, ok := bad.Load("panic"); ok {
		return "C16,C15|panic in GCPMultiEndpoint workload: " + v.(string)
	}
	// C15: with every endpoint reachable again, routing of every MultiEndpoint follows within the bound
	if nu == 1 {
		lastMu.Lock()
		final := last
		lastMu.Unlock()
		if len(final) == 0 {
			o := mkOK(p.Seed, false)
			for n, meo := range o.MultiEndpoints {
				final[n] = meo.Endpoints
			}
		}
		deadline := time.Now().Add(10 * time.Second)
		for name, l := range final {
			for {
				got := gmesim.Probe(gme, name, 300*time.Millisecond)
				if got == l[0] {
					break
				}
				if time.Now().After(deadline) {
					return fmt.Sprintf("C15|after the workload every endpoint is reachable, yet 10s later MultiEndpoint %q %v still routes to %q instead of %q", name, l, got, l[0])
				}
				time.Sleep(2 * time.Millisecond)
			}
		}
	}
	return ""
}
