package cfg

import (
	"os"
	"testing"

	pb "github.com/GoogleCloudPlatform/grpc-gcp-go/grpcgcp/grpc_gcp"
	"google.golang.org/protobuf/encoding/protojson"
	"google.golang.org/protobuf/proto"
	"pgregory.net/rapid"
	"verifharness/hx"
)

func TestMain(m *testing.M) {
	hx.Quiet()
	code := m.Run()
	hx.Flush()
	os.Exit(code)
}

type rr struct{ t *rapid.T }

func (r rr) Int(n int, label string) int { return rapid.IntRange(0, n-1).Draw(r.t, label) }

func genU32(t *rapid.T, label string) uint32 {
	return rapid.SampledFrom([]uint32{0, 0, 1, 2, 4, 10, 100, 1000, 1<<31 - 1, 1 << 31, 1<<32 - 1}).Draw(t, label)
}

var methodNames = []string{"/svc/A", "/svc/B", "/svc/A", "", "/é/ü", "/x\n\"y\\", "/svc/Get%20Item", "/100%"}
var keyPaths = []string{"key", "", "a.b.c", "name", "ключ", "k\"q", "k%d", "%s.%v"}

func genConfig(t *rapid.T) *pb.ApiConfig {
	m := &pb.ApiConfig{}
	if rapid.IntRange(0, 4).Draw(t, "pool") != 0 {
		m.ChannelPool = &pb.ChannelPoolConfig{
			MaxSize: genU32(t, "max"), MinSize: genU32(t, "min"), MaxConcurrentStreamsLowWatermark: genU32(t, "wm"),
			IdleTimeout:             rapid.SampledFrom([]uint64{0, 0, 1, 1 << 40, 1<<53 + 1, 1<<64 - 1}).Draw(t, "idle"),
			FallbackToReady:         rapid.Bool().Draw(t, "fb"),
			UnresponsiveDetectionMs: genU32(t, "udms"), UnresponsiveCalls: genU32(t, "udc"),
			BindPickStrategy: pb.ChannelPoolConfig_BindPickStrategy(rapid.SampledFrom([]int32{0, 0, 1, 2, 7, -3}).Draw(t, "strategy")),
		}
	}
	n := rapid.IntRange(0, 6).Draw(t, "nmethods")
	many := rapid.IntRange(0, 39).Draw(t, "manymethods") == 0
	if many {
		n = rapid.IntRange(30, 120).Draw(t, "nmethodsmany")
	}
	for i := 0; i < n; i++ {
		mc := &pb.MethodConfig{}
		k := rapid.IntRange(0, 3).Draw(t, "nnames")
		if many && i == 0 {
			k = rapid.IntRange(20, 70).Draw(t, "nnamesmany")
		}
		for j := 0; j < k; j++ {
			mc.Name = append(mc.Name, rapid.SampledFrom(methodNames).Draw(t, "name"))
		}
		if rapid.IntRange(0, 3).Draw(t, "aff") != 0 {
			mc.Affinity = &pb.AffinityConfig{Command: pb.AffinityConfig_Command(rapid.SampledFrom([]int32{0, 1, 2, 2, 9}).Draw(t, "cmd")), AffinityKey: rapid.SampledFrom(keyPaths).Draw(t, "path")}
		}
		m.Method = append(m.Method, mc)
	}
	return m
}

func one(c *Case) string {
	st := hx.For("C17")
	f := CheckText(c)
	if f != "" {
		st.Failed()
		c.Failure, c.Property = f, "C17"
		hx.WriteReplay("C17", c)
	}
	return f
}

func nontrivial(m *pb.ApiConfig) bool {
	cp := m.GetChannelPool()
	zero := cp.GetMinSize() == 0 || cp.GetMaxSize() == 0 || cp.GetMaxConcurrentStreamsLowWatermark() == 0
	set := cp.GetMinSize() != 0 || cp.GetMaxSize() != 0 || cp.GetMaxConcurrentStreamsLowWatermark() != 0 || cp.GetFallbackToReady()
	return zero && set && len(m.Method) >= 2
}

func prop(rt *rapid.T) {
	st := hx.For("C17")
	m := genConfig(rt)
	labels := map[string]int{}
	var c *Case
	if rapid.IntRange(0, 2).Draw(rt, "faulty") == 0 {
		kind := rapid.SampledFrom(Faults).Draw(rt, "fault")
		text, ok := Inject(rr{rt}, m, kind)
		if !ok {
			labels["fault-not-applicable"]++
			st.Case(1, labels, false, nil)
			return
		}
		c = &Case{Text: text, Valid: false, Fault: kind}
		labels["fault-"+kind]++
	} else {
		exp, err := protojson.Marshal(m)
		if err != nil {
			rt.Fatal(err)
		}
		c = &Case{Text: Render(rr{rt}, m), Valid: true, Expected: string(exp)}
		labels["valid-text"]++
	}
	if f := one(c); f != "" {
		rt.Fatalf("%s", f)
	}
	if c.Valid && rapid.IntRange(0, 9).Draw(rt, "gme") == 0 {
		labels["gme-config-copy"]++
		gm := proto.Clone(m).(*pb.ApiConfig)
		if gm.GetChannelPool().GetMinSize() > 3 {
			gm.ChannelPool.MinSize = 3 // a pool really opens minSize connections
		}
		if f := CheckGME(gm); f != "" {
			st.Failed()
			c.Failure, c.Property = "GCPMultiEndpoint: "+f, "C17"
			hx.WriteReplay("C17", c)
			rt.Fatalf("%s", f)
		}
	}
	st.Case(1, labels, nontrivial(m), c)
}

func TestC17(t *testing.T) {
	if p := hx.ReplayIn(); p != "" {
		var c Case
		if err := hx.Load(p, &c); err != nil {
			t.Fatal(err)
		}
		c.Failure = ""
		if f := one(&c); f != "" {
			t.Fatalf("replay: %s", f)
		}
		if c.Valid {
			m := &pb.ApiConfig{}
			if protojson.Unmarshal([]byte(c.Expected), m) == nil {
				if f := CheckGME(m); f != "" {
					t.Fatalf("replay: %s", f)
				}
			}
		}
		hx.For("C17").Case(1, nil, true, &c)
		return
	}
	for _, p := range hx.Corpus("C17") {
		var c Case
		if hx.Load(p, &c) == nil && c.Text != "" {
			c.Failure = ""
			if f := one(&c); f != "" {
				t.Fatalf("corpus %s: %s", p, f)
			}
		}
	}
	// nil and empty configurations through GCPMultiEndpoint
	for _, m := range []*pb.ApiConfig{{}, {ChannelPool: &pb.ChannelPoolConfig{}}, {Method: []*pb.MethodConfig{{}}}} {
		if f := CheckGME(m); f != "" {
			t.Fatalf("GCPMultiEndpoint: %s", f)
		}
	}
	rapid.Check(t, prop)
}

// FuzzC17 compares the balancer's parser with protojson on arbitrary bytes (accept/reject and value).
func FuzzC17(f *testing.F) {
	for _, s := range []string{`{}`, `{"channelPool":{"maxSize":4,"min_size":"2"}}`, `{"method":[{"name":["a"],"affinity":{"command":"BIND","affinityKey":"k"}}]}`, `{"bogus":1}`, `[]`, `{"channelPool":{"maxSize":4,"max_size":5}}`} {
		f.Add([]byte(s))
	}
	f.Fuzz(func(t *testing.T, data []byte) {
		got, err := Parse(string(data))
		want := &pb.ApiConfig{}
		werr := protojson.Unmarshal(data, want)
		if (err != nil) != (werr != nil) {
			c := &Case{Text: string(data), Valid: werr == nil, Fault: "differential", Failure: "parser and protojson disagree on acceptance"}
			hx.WriteReplay("C17", c)
			t.Fatalf("ParseConfig err=%v, protojson.Unmarshal err=%v for %q", err, werr, data)
		}
		if err == nil && !proto.Equal(got, want) {
			t.Fatalf("ParseConfig value %v, protojson value %v for %q", got, want, data)
		}
	})
}
