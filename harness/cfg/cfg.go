// Package cfg checks the configuration property (C17): the parser accepts exactly the well-formed
// JSON renderings of ApiConfig (texts are generated valid-by-construction together with the
// expected message, or with exactly one injected fault), round-trips without loss, and
// GCPMultiEndpoint neither mutates nor aliases the caller's configuration.
package cfg

import (
	"context"
	"encoding/json"
	"fmt"
	"google.golang.org/grpc/serviceconfig"
	"strconv"
	"strings"
	"sync"

	"github.com/GoogleCloudPlatform/grpc-gcp-go/grpcgcp"
	pb "github.com/GoogleCloudPlatform/grpc-gcp-go/grpcgcp/grpc_gcp"
	"github.com/GoogleCloudPlatform/grpc-gcp-go/grpcgcp/multiendpoint"
	"google.golang.org/grpc"
	"google.golang.org/grpc/balancer"
	"google.golang.org/grpc/credentials/insecure"
	"google.golang.org/protobuf/encoding/protojson"
	"google.golang.org/protobuf/proto"
)

// Case is a JSON text with its expectation.
type Case struct {
	Property string `json:"property,omitempty"`
	Text     string `json:"text"`
	Valid    bool   `json:"valid"`
	Fault    string `json:"fault,omitempty"`
	Expected string `json:"expected,omitempty"` // canonical protojson of the expected message (valid texts)
	Failure  string `json:"failure,omitempty"`
}

// Parse calls the balancer's registered config parser.
func Parse(text string) (*pb.ApiConfig, error) {
	c, err := balancer.Get("grpc_gcp").(balancer.ConfigParser).ParseConfig([]byte(text))
	if err != nil {
		return nil, err
	}
	g, ok := c.(*grpcgcp.GCPBalancerConfig)
	if !ok || g == nil {
		return nil, fmt.Errorf("ParseConfig returned %T", c)
	}
	return g.ApiConfig, nil
}

// CheckText applies the oracle to one text.
func CheckText(c *Case) string {
	var got *pb.ApiConfig
	var err error
	var p interface{}
	func() {
		defer func() { p = recover() }()
		got, err = Parse(c.Text)
	}()
	if p != nil {
		return fmt.Sprintf("ParseConfig panicked on %q: %v", c.Text, p)
	}
	if !c.Valid {
		if err == nil {
			return fmt.Sprintf("malformed text (%s) accepted: %s -> %v", c.Fault, c.Text, got)
		}
		return ""
	}
	if err != nil {
		return fmt.Sprintf("well-formed text rejected: %s: %v", c.Text, err)
	}
	want := &pb.ApiConfig{}
	if e := protojson.Unmarshal([]byte(c.Expected), want); e != nil {
		return "harness: expected text does not parse: " + e.Error()
	}
	if !proto.Equal(got, want) {
		return fmt.Sprintf("text %s parsed to %v, want %v", c.Text, got, want)
	}
	// round trip of the parsed value
	b, e := protojson.Marshal(got)
	if e != nil {
		return "Marshal of the parsed config failed: " + e.Error()
	}
	again, e := Parse(string(b))
	if e != nil || !proto.Equal(again, got) {
		return fmt.Sprintf("round trip lost information: %v -> %s -> %v (%v)", got, b, again, e)
	}
	return ""
}

// ---- rendering -----------------------------------------------------------------------------------

// R draws the free choices of a rendering.
type R interface {
	Int(n int, label string) int // uniform in [0,n)
}

func ws(r R) string { return []string{"", "", " ", "\n", "\t ", "  \r\n"}[r.Int(6, "ws")] }

func num(r R, v uint64, allowFloat bool) string {
	s := strconv.FormatUint(v, 10)
	k := r.Int(5, "numform")
	switch {
	case k == 1:
		return `"` + s + `"`
	case k == 2 && allowFloat && v < 1<<50:
		return s + ".0"
	case k == 3 && allowFloat && v < 1<<50:
		return s + "e0"
	case k == 4 && allowFloat && v > 0 && v%10 == 0 && v < 1<<50:
		return strconv.FormatUint(v/10, 10) + "e1"
	}
	return s
}

func jstr(r R, s string) string {
	var b strings.Builder
	b.WriteByte('"')
	for _, c := range s {
		switch {
		case c == '"' || c == '\\':
			b.WriteByte('\\')
			b.WriteRune(c)
		case c < 0x20:
			fmt.Fprintf(&b, `\u%04x`, c)
		case c > 0x7e && c < 0x10000 && r.Int(2, "esc") == 0:
			fmt.Fprintf(&b, `\u%04x`, c)
		default:
			b.WriteRune(c)
		}
	}
	b.WriteByte('"')
	return b.String()
}

type field struct{ camel, snake, val string }

func obj(r R, fs []field) string {
	// arbitrary order
	for i := len(fs) - 1; i > 0; i-- {
		j := r.Int(i+1, "order")
		fs[i], fs[j] = fs[j], fs[i]
	}
	var parts []string
	for _, f := range fs {
		name := f.camel
		if r.Int(3, "snake") == 0 {
			name = f.snake
		}
		parts = append(parts, ws(r)+`"`+name+`"`+ws(r)+":"+ws(r)+f.val+ws(r))
	}
	return "{" + ws(r) + strings.Join(parts, ",") + "}"
}

var strategyNames = map[pb.ChannelPoolConfig_BindPickStrategy]string{0: "UNSPECIFIED", 1: "LEAST_ACTIVE_STREAMS", 2: "ROUND_ROBIN"}
var commandNames = map[pb.AffinityConfig_Command]string{0: "BOUND", 1: "BIND", 2: "UNBIND"}

func enum(r R, v int32, names map[int32]string) string {
	if n, ok := names[v]; ok && r.Int(2, "enumname") == 0 {
		return `"` + n + `"`
	}
	return strconv.Itoa(int(v))
}

// present decides whether a zero-valued field is written out anyway.
func present(r R, zero bool) bool { return !zero || r.Int(3, "writezero") == 0 }

// Render renders m as one of its well-formed JSON texts.
func Render(r R, m *pb.ApiConfig) string {
	var top []field
	if m.ChannelPool != nil {
		cp := m.ChannelPool
		var fs []field
		add := func(camel, snake string, v uint64, fl bool) {
			if present(r, v == 0) {
				fs = append(fs, field{camel, snake, num(r, v, fl)})
			}
		}
		add("maxSize", "max_size", uint64(cp.MaxSize), true)
		add("idleTimeout", "idle_timeout", cp.IdleTimeout, true)
		add("maxConcurrentStreamsLowWatermark", "max_concurrent_streams_low_watermark", uint64(cp.MaxConcurrentStreamsLowWatermark), true)
		add("minSize", "min_size", uint64(cp.MinSize), true)
		add("unresponsiveDetectionMs", "unresponsive_detection_ms", uint64(cp.UnresponsiveDetectionMs), true)
		add("unresponsiveCalls", "unresponsive_calls", uint64(cp.UnresponsiveCalls), true)
		if present(r, !cp.FallbackToReady) {
			fs = append(fs, field{"fallbackToReady", "fallback_to_ready", strconv.FormatBool(cp.FallbackToReady)})
		}
		if present(r, cp.BindPickStrategy == 0) {
			fs = append(fs, field{"bindPickStrategy", "bind_pick_strategy", enum(r, int32(cp.BindPickStrategy), map[int32]string{0: "UNSPECIFIED", 1: "LEAST_ACTIVE_STREAMS", 2: "ROUND_ROBIN"})})
		}
		top = append(top, field{"channelPool", "channel_pool", obj(r, fs)})
	} else if r.Int(4, "nullpool") == 0 {
		top = append(top, field{"channelPool", "channel_pool", "null"})
	}
	if len(m.Method) > 0 || r.Int(4, "emptymethods") == 0 {
		var ms []string
		for _, mc := range m.Method {
			var fs []field
			if len(mc.Name) > 0 || r.Int(3, "emptynames") == 0 {
				var ns []string
				for _, n := range mc.Name {
					ns = append(ns, ws(r)+jstr(r, n)+ws(r))
				}
				fs = append(fs, field{"name", "name", "[" + strings.Join(ns, ",") + "]"})
			}
			if mc.Affinity != nil {
				var as []field
				if present(r, mc.Affinity.Command == 0) {
					as = append(as, field{"command", "command", enum(r, int32(mc.Affinity.Command), map[int32]string{0: "BOUND", 1: "BIND", 2: "UNBIND"})})
				}
				if present(r, mc.Affinity.AffinityKey == "") {
					as = append(as, field{"affinityKey", "affinity_key", jstr(r, mc.Affinity.AffinityKey)})
				}
				fs = append(fs, field{"affinity", "affinity", obj(r, as)})
			} else if r.Int(4, "nullaff") == 0 {
				fs = append(fs, field{"affinity", "affinity", "null"})
			}
			ms = append(ms, ws(r)+obj(r, fs)+ws(r))
		}
		top = append(top, field{"method", "method", "[" + strings.Join(ms, ",") + "]"})
	}
	return ws(r) + obj(r, top) + ws(r)
}

// Faults lists the injectable faults.
var Faults = []string{"unknown-field", "unknown-nested-field", "bool-as-string", "bool-as-number", "number-negative", "number-out-of-range", "number-non-integral",
	"number-as-bool", "enum-wrong-case", "enum-unknown-name", "duplicate-field", "duplicate-other-spelling", "trailing-garbage", "second-object", "null-list-element",
	"object-for-list", "scalar-for-list", "wrong-element-type", "top-level-array", "top-level-null", "empty-input", "trailing-comma", "single-quotes", "leading-zero",
	"string-for-object", "unterminated", "lone-surrogate", "number-for-string",
	// the configuration wrapped the way it appears elsewhere (service config, policy name as a key): not a rendering of the message
	"wrapped-in-policy-name", "wrapped-in-policy-name-twice", "wrapped-in-lb-config-list", "wrapped-in-other-key"}

// Inject returns a text with exactly one fault of the given kind (ok=false if the kind does not
// apply to this rendering).
func Inject(r R, m *pb.ApiConfig, kind string) (string, bool) {
	m = proto.Clone(m).(*pb.ApiConfig)
	// the fault is injected as a whole extra member: drop the member it would collide with
	switch kind {
	case "unknown-nested-field", "bool-as-string", "bool-as-number", "number-negative", "number-out-of-range", "number-non-integral", "number-as-bool", "enum-wrong-case",
		"enum-unknown-name", "duplicate-field", "duplicate-other-spelling", "leading-zero", "string-for-object":
		m.ChannelPool = nil
	case "null-list-element", "object-for-list", "scalar-for-list", "wrong-element-type", "lone-surrogate", "number-for-string":
		m.Method = nil
	}
	base := Render(zeroR{}, m) // compact canonical-ish rendering without whitespace
	inner := strings.TrimSuffix(strings.TrimPrefix(base, "{"), "}")
	join := func(extra string) string {
		if inner == "" {
			return "{" + extra + "}"
		}
		if r.Int(2, "front") == 0 {
			return "{" + extra + "," + inner + "}"
		}
		return "{" + inner + "," + extra + "}"
	}
	switch kind {
	case "unknown-field":
		return join(`"bogus":1`), true
	case "unknown-nested-field":
		return join(`"channelPool":{"maxSizes":1}`), m.ChannelPool == nil
	case "bool-as-string":
		return join(`"channelPool":{"fallbackToReady":"true"}`), m.ChannelPool == nil
	case "bool-as-number":
		return join(`"channelPool":{"fallbackToReady":1}`), m.ChannelPool == nil
	case "number-negative":
		return join(`"channelPool":{"minSize":-1}`), m.ChannelPool == nil
	case "number-out-of-range":
		return join(`"channelPool":{"maxSize":4294967296}`), m.ChannelPool == nil
	case "number-non-integral":
		return join(`"channelPool":{"maxSize":4.5}`), m.ChannelPool == nil
	case "number-as-bool":
		return join(`"channelPool":{"maxSize":true}`), m.ChannelPool == nil
	case "enum-wrong-case":
		return join(`"channelPool":{"bindPickStrategy":"round_robin"}`), m.ChannelPool == nil
	case "enum-unknown-name":
		return join(`"channelPool":{"bindPickStrategy":"FASTEST"}`), m.ChannelPool == nil
	case "duplicate-field":
		return join(`"channelPool":{"maxSize":1,"maxSize":1}`), m.ChannelPool == nil
	case "duplicate-other-spelling":
		return join(`"channelPool":{"maxSize":1,"max_size":1}`), m.ChannelPool == nil
	case "trailing-garbage":
		return base + " x", true
	case "second-object":
		return base + "{}", true
	case "null-list-element":
		return join(`"method":[null]`), len(m.Method) == 0 && !strings.Contains(base, `"method"`)
	case "object-for-list":
		return join(`"method":{"name":["a"]}`), len(m.Method) == 0 && !strings.Contains(base, `"method"`)
	case "scalar-for-list":
		return join(`"method":[{"name":"a"}]`), len(m.Method) == 0 && !strings.Contains(base, `"method"`)
	case "wrong-element-type":
		return join(`"method":[{"name":[1]}]`), len(m.Method) == 0 && !strings.Contains(base, `"method"`)
	case "top-level-array":
		return "[" + base + "]", true
	case "top-level-null":
		return "null", true
	case "empty-input":
		return ws(r), true
	case "trailing-comma":
		return "{" + inner + ",}", inner != ""
	case "single-quotes":
		return strings.ReplaceAll(base, `"`, `'`), strings.Contains(base, `"`)
	case "leading-zero":
		return join(`"channelPool":{"maxSize":04}`), m.ChannelPool == nil
	case "string-for-object":
		return join(`"channelPool":"x"`), m.ChannelPool == nil
	case "unterminated":
		return base[:len(base)-1], true
	case "lone-surrogate":
		return join(`"method":[{"affinity":{"affinityKey":"\ud800"}}]`), len(m.Method) == 0 && !strings.Contains(base, `"method"`)
	case "wrapped-in-policy-name":
		return "{" + ws(r) + `"grpc_gcp":` + ws(r) + base + "}", true
	case "wrapped-in-policy-name-twice":
		return `{"grpc_gcp":{"grpc_gcp":` + base + "}}", true
	case "wrapped-in-lb-config-list":
		return `{"loadBalancingConfig":[{"grpc_gcp":` + base + "}]}", true
	case "wrapped-in-other-key":
		return "{" + []string{`"apiConfig"`, `"api_config"`, `"ApiConfig"`, `"grpc.gcp.ApiConfig"`, `"config"`, `"GRPC_GCP"`, `"grpcGcp"`}[r.Int(7, "wrapkey")] + ":" + base + "}", true
	case "number-for-string":
		return join(`"method":[{"affinity":{"affinityKey":5}}]`), len(m.Method) == 0 && !strings.Contains(base, `"method"`)
	}
	return "", false
}

type zeroR struct{}

func (zeroR) Int(int, string) int { return 0 }

// ---- GCPMultiEndpoint and the caller's configuration -----------------------------------------------

func dial(ctx context.Context, target string, dopts ...grpc.DialOption) (*grpc.ClientConn, error) {
	dopts = append(dopts, grpc.WithTransportCredentials(insecure.NewCredentials()))
	return grpc.Dial("passthrough:///"+target, dopts...)
}

// CheckGME: GCPConfig() is an equal deep copy; neither side aliases the other.
func CheckGME(m *pb.ApiConfig) string {
	if m.GetChannelPool().GetMinSize() > 3 {
		m.ChannelPool.MinSize = 3 // a pool really opens minSize connections
	}
	// both constructors (the old spelling is kept for compatibility), each with its own copy of the configuration
	if m != nil {
		if f := checkGME(proto.Clone(m).(*pb.ApiConfig), grpcgcp.NewGcpMultiEndpoint); f != "" {
			return "NewGcpMultiEndpoint (deprecated spelling): " + f
		}
	}
	return checkGME(m, grpcgcp.NewGCPMultiEndpoint)
}

// The registered balancer builder is wrapped: what its ParseConfig is handed when a pool is dialed is recorded, so that
// the configuration the pools really get can be compared with the supplied one.
type recBuilder struct{ balancer.Builder }

var recMu sync.Mutex
var recorded []*pb.ApiConfig
var recErrs []string

func (r recBuilder) ParseConfig(j json.RawMessage) (serviceconfig.LoadBalancingConfig, error) {
	c, err := r.Builder.(balancer.ConfigParser).ParseConfig(j)
	recMu.Lock()
	if g, ok := c.(*grpcgcp.GCPBalancerConfig); ok && g != nil && g.ApiConfig != nil && err == nil {
		recorded = append(recorded, proto.Clone(g.ApiConfig).(*pb.ApiConfig))
	} else if err != nil {
		recErrs = append(recErrs, err.Error())
	}
	recMu.Unlock()
	return c, err
}

func init() {
	if inner := balancer.Get("grpc_gcp"); inner != nil {
		balancer.Register(recBuilder{inner})
	}
}

func checkGME(m *pb.ApiConfig, construct func(*grpcgcp.GCPMultiEndpointOptions, ...grpc.DialOption) (*grpcgcp.GCPMultiEndpoint, error)) string {
	before := proto.Clone(m).(*pb.ApiConfig)
	recMu.Lock()
	recorded, recErrs = nil, nil
	recMu.Unlock()
	gme, err := construct(&grpcgcp.GCPMultiEndpointOptions{
		GRPCgcpConfig:  m,
		MultiEndpoints: map[string]*multiendpoint.MultiEndpointOptions{"default": {Endpoints: []string{"endpoint-1"}}},
		Default:        "default",
		DialFunc:       dial,
	})
	if err != nil {
		return "NewGCPMultiEndpoint: " + err.Error()
	}
	defer gme.Close()
	recMu.Lock()
	got0 := recorded
	recMu.Unlock()
	for _, r := range got0 {
		if m != nil && !proto.Equal(r, before) {
			return fmt.Sprintf("the pool was dialed with the configuration %v, supplied %v", r, before)
		}
	}
	if !proto.Equal(before, m) {
		return fmt.Sprintf("NewGCPMultiEndpoint changed the caller's configuration: %v -> %v", before, m)
	}
	got := gme.GCPConfig()
	if !proto.Equal(got, before) {
		return fmt.Sprintf("GCPConfig() = %v, supplied %v", got, before)
	}
	if m != nil && got == m {
		return "GCPConfig() returns the caller's object"
	}
	if aliased(got, m) {
		return "GCPConfig() shares sub-objects with the caller's configuration"
	}
	// mutate the returned copy: a second call must not see it
	scribble(got)
	got2 := gme.GCPConfig()
	if !proto.Equal(got2, before) {
		return fmt.Sprintf("mutating the result of GCPConfig() changed the stored configuration: %v", got2)
	}
	if aliased(got, got2) {
		return "two results of GCPConfig() share sub-objects"
	}
	// a later update that carries another (or no) gRPC-GCP configuration does not change the configuration of the object
	for _, other := range []*pb.ApiConfig{nil, {ChannelPool: &pb.ChannelPoolConfig{MaxSize: 9, MinSize: 2}}} {
		if err := gme.UpdateMultiEndpoints(&grpcgcp.GCPMultiEndpointOptions{
			GRPCgcpConfig:  other,
			MultiEndpoints: map[string]*multiendpoint.MultiEndpointOptions{"default": {Endpoints: []string{"endpoint-1", "endpoint-2"}}},
			Default:        "default",
		}); err != nil {
			return "UpdateMultiEndpoints: " + err.Error()
		}
		if got4 := gme.GCPConfig(); !proto.Equal(got4, before) {
			return fmt.Sprintf("an update carrying the configuration %v changed GCPConfig() from %v to %v", other, before, got4)
		}
	}
	// mutate the caller's object: the stored configuration must not follow
	scribble(m)
	if got3 := gme.GCPConfig(); !proto.Equal(got3, before) {
		return fmt.Sprintf("mutating the caller's configuration after construction changed GCPConfig(): %v", got3)
	}
	return ""
}

func aliased(a, b *pb.ApiConfig) bool {
	if a == nil || b == nil {
		return false
	}
	if a.ChannelPool != nil && a.ChannelPool == b.ChannelPool {
		return true
	}
	for _, x := range a.Method {
		for _, y := range b.Method {
			if x != nil && x == y {
				return true
			}
			if x != nil && y != nil && x.Affinity != nil && x.Affinity == y.Affinity {
				return true
			}
			if x != nil && y != nil && len(x.Name) > 0 && len(y.Name) > 0 && &x.Name[0] == &y.Name[0] {
				return true
			}
		}
	}
	return false
}

func scribble(c *pb.ApiConfig) {
	if c == nil {
		return
	}
	if c.ChannelPool != nil {
		c.ChannelPool.MaxSize += 17
		c.ChannelPool.FallbackToReady = !c.ChannelPool.FallbackToReady
	} else {
		c.ChannelPool = &pb.ChannelPoolConfig{MaxSize: 99}
	}
	for _, m := range c.Method {
		if m == nil {
			continue
		}
		for i := range m.Name {
			m.Name[i] += "-scribbled"
		}
		if m.Affinity != nil {
			m.Affinity.AffinityKey += "-scribbled"
		}
	}
	c.Method = append(c.Method, &pb.MethodConfig{Name: []string{"/added"}})
}
