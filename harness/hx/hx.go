// Package hx holds what every engine shares: per-process statistics (cases, labels, distinct
// non-trivial traces, samples) flushed to $VERIF_STATS, replay files written to $VERIF_REPLAY_OUT,
// and corpus / replay input lookup. Nothing in here draws random numbers or reads the wall clock
// for decisions.
package hx

import (
	"encoding/json"
	"fmt"
	"hash/fnv"
	"io"
	"os"
	"path/filepath"
	"runtime"
	"sort"
	"sync"
	"sync/atomic"
	"time"

	"google.golang.org/grpc/grpclog"
)

// Stats collects what one test process explored.
type Stats struct {
	mu         sync.Mutex
	Property   string                 `json:"property"`
	Cases      int64                  `json:"cases"`
	Steps      int64                  `json:"steps"`
	Labels     map[string]int64       `json:"labels"`
	Nontrivial map[string]bool        `json:"-"`
	Hashes     []string               `json:"nontrivial_hashes"`
	Samples    []interface{}          `json:"samples"`
	Extra      map[string]interface{} `json:"extra,omitempty"`
	Failures   int64                  `json:"failures"`
}

var (
	regMu sync.Mutex
	reg   = map[string]*Stats{}
)

// For returns the statistics object of a property (one per process).
func For(prop string) *Stats {
	regMu.Lock()
	defer regMu.Unlock()
	if s, ok := reg[prop]; ok {
		return s
	}
	s := &Stats{Property: prop, Labels: map[string]int64{}, Nontrivial: map[string]bool{}, Extra: map[string]interface{}{}}
	reg[prop] = s
	return s
}

// Case records one executed case. trace is the canonical (JSON-serialisable) form of the case;
// it is hashed for the distinct count when nontrivial, and kept as a sample for the first few.
func (s *Stats) Case(steps int, labels map[string]int, nontrivial bool, trace interface{}) {
	s.mu.Lock()
	defer s.mu.Unlock()
	s.Cases++
	s.Steps += int64(steps)
	for k, v := range labels {
		s.Labels[k] += int64(v)
	}
	if nontrivial {
		b, _ := json.Marshal(trace)
		h := fnv.New64a()
		h.Write(b)
		key := fmt.Sprintf("%016x", h.Sum64())
		if !s.Nontrivial[key] {
			s.Nontrivial[key] = true
			if len(s.Samples) < 3 && len(b) < 6000 {
				s.Samples = append(s.Samples, json.RawMessage(b))
			}
		}
	}
}

// AddCases counts cases that were executed but not passed through Case (no hashing).
func (s *Stats) AddCases(n int) {
	s.mu.Lock()
	s.Cases += int64(n)
	s.mu.Unlock()
}

// Label adds to a label counter outside of Case.
func (s *Stats) Label(k string, n int) {
	s.mu.Lock()
	s.Labels[k] += int64(n)
	s.mu.Unlock()
}

// SetExtra records an arbitrary extra value in the statistics.
func (s *Stats) SetExtra(k string, v interface{}) {
	s.mu.Lock()
	s.Extra[k] = v
	s.mu.Unlock()
}

// Failed counts an oracle failure (rapid calls the property again while shrinking).
func (s *Stats) Failed() {
	s.mu.Lock()
	s.Failures++
	s.mu.Unlock()
}

// Flush writes all statistics of this process to $VERIF_STATS (a JSON list).
func Flush() {
	path := os.Getenv("VERIF_STATS")
	if path == "" {
		return
	}
	regMu.Lock()
	defer regMu.Unlock()
	var out []*Stats
	var names []string
	for n := range reg {
		names = append(names, n)
	}
	sort.Strings(names)
	for _, n := range names {
		s := reg[n]
		s.Hashes = s.Hashes[:0]
		for h := range s.Nontrivial {
			s.Hashes = append(s.Hashes, h)
		}
		sort.Strings(s.Hashes)
		out = append(out, s)
	}
	b, _ := json.Marshal(out)
	os.WriteFile(path, b, 0o644)
}

// WriteReplay stores a failing case. It is called on every failing execution, so after the
// library's shrinking the file holds the minimal failing case.
func WriteReplay(prop string, v interface{}) {
	path := os.Getenv("VERIF_REPLAY_OUT")
	if path == "" {
		return
	}
	b, err := json.MarshalIndent(v, "", " ")
	if err != nil {
		b = []byte(fmt.Sprintf("{\"property\":%q,\"marshal_error\":%q}", prop, err.Error()))
	}
	if Verbose() {
		// the logging verbosity of the process is part of the case
		var m map[string]json.RawMessage
		if json.Unmarshal(b, &m) == nil && m != nil {
			m["verboseLogging"] = json.RawMessage("true")
			if bb, err := json.MarshalIndent(m, "", " "); err == nil {
				b = bb
			}
		}
	}
	os.WriteFile(path, b, 0o644)
}

// DropReplay removes a replay file that was written ahead of a call that might have killed the process.
func DropReplay(prop string) {
	if path := os.Getenv("VERIF_REPLAY_OUT"); path != "" {
		os.Remove(path)
	}
}

// ReplayIn returns the replay file to run instead of the generated search ("" if none).
func ReplayIn() string { return os.Getenv("VERIF_REPLAY_IN") }

// Corpus lists the committed regression traces of a property.
func Corpus(prop string) []string {
	dir := os.Getenv("VERIF_CORPUS")
	if dir == "" {
		return nil
	}
	m, _ := filepath.Glob(filepath.Join(dir, prop, "*.json"))
	sort.Strings(m)
	return m
}

// Load reads a JSON file into v.
func Load(path string, v interface{}) error {
	b, err := os.ReadFile(path)
	if err != nil {
		return err
	}
	return json.Unmarshal(b, v)
}

// Tier is "quick" or "thorough".
func Tier() string {
	if t := os.Getenv("VERIF_TIER"); t != "" {
		return t
	}
	return "quick"
}

// Knob reads an integer knob from the environment (the driver passes sizes this way).
func Knob(name string, def int) int {
	if v := os.Getenv(name); v != "" {
		var n int
		if _, err := fmt.Sscanf(v, "%d", &n); err == nil {
			return n
		}
	}
	return def
}

// Watchdog state shared with engines: a library call that does not return within 3 s of real time
// (normal: microseconds) is a hang. Engines set InCall around library calls and bump Beat.
var (
	Beat     atomic.Int64
	InCall   atomic.Bool
	CallDesc atomic.Value // string
	OnHang   atomic.Value // func(desc string): writes the replay of the running case
)

// StartWatchdog runs outside every synctest bubble (real time).
func StartWatchdog(prop func() string) {
	go func() {
		last, since := int64(-1), time.Now()
		for {
			time.Sleep(200 * time.Millisecond)
			n := Beat.Load()
			if !InCall.Load() || n != last {
				last, since = n, time.Now()
				continue
			}
			if time.Since(since) < 3*time.Second {
				continue
			}
			desc, _ := CallDesc.Load().(string)
			if f, ok := OnHang.Load().(func(string)); ok && f != nil {
				f(desc)
			}
			buf := make([]byte, 1<<20)
			buf = buf[:runtime.Stack(buf, true)]
			fmt.Printf("HANG property=%s during %s\n%s\n", prop(), desc, buf)
			Flush()
			os.Exit(3)
		}
	}()
}

// Quiet silences grpclog: some defects log an error per loop iteration forever.
// The verbosity is an input dimension: with Verbose() the logger answers true to every V(level) query, so
// code behind "if logger.V(...)" runs (its output is still discarded). The driver alternates it between the
// shards of a part; a replay file remembers it.
func Quiet() {
	if Verbose() {
		grpclog.SetLoggerV2(verboseLogger{})
		return
	}
	grpclog.SetLoggerV2(grpclog.NewLoggerV2(io.Discard, io.Discard, io.Discard))
}

var verboseOnce sync.Once
var verbose bool

// Verbose reports whether this process runs the library with all verbosity levels enabled.
func Verbose() bool {
	verboseOnce.Do(func() {
		verbose = os.Getenv("VERIF_VERBOSE") == "1"
		if p := ReplayIn(); p != "" {
			var m map[string]json.RawMessage
			if Load(p, &m) == nil {
				verbose = string(m["verboseLogging"]) == "true"
			}
		}
	})
	return verbose
}

// verboseLogger answers true to every V(level) and discards what is logged - except that a harness may install a
// hook that sees every info line (LogHook): the goroutine that logs can be held there, which is how a harness owns
// the moment between "the library observed X" and "the library acts on X" wherever the library logs in between.
type verboseLogger struct{}

// LogHook, when set, is called with every formatted info line (only with Verbose()).
var LogHook atomic.Pointer[func(msg string)]

func logHook(msg string) {
	if f := LogHook.Load(); f != nil {
		(*f)(msg)
	}
}

func (verboseLogger) Info(a ...interface{})               { logHook(fmt.Sprint(a...)) }
func (verboseLogger) Infoln(a ...interface{})             { logHook(fmt.Sprintln(a...)) }
func (verboseLogger) Infof(f string, a ...interface{})    { logHook(fmt.Sprintf(f, a...)) }
func (verboseLogger) Warning(a ...interface{})            {}
func (verboseLogger) Warningln(a ...interface{})          {}
func (verboseLogger) Warningf(f string, a ...interface{}) {}
func (verboseLogger) Error(a ...interface{})              {}
func (verboseLogger) Errorln(a ...interface{})            {}
func (verboseLogger) Errorf(f string, a ...interface{})   {}
func (verboseLogger) Fatal(a ...interface{})              { panic(fmt.Sprint(a...)) }
func (verboseLogger) Fatalln(a ...interface{})            { panic(fmt.Sprintln(a...)) }
func (verboseLogger) Fatalf(f string, a ...interface{})   { panic(fmt.Sprintf(f, a...)) }
func (verboseLogger) V(l int) bool                        { return true }
