// Command instr inserts verifYield("file:line") calls in front of every statement of the library
// that performs a mutex operation or a sync/atomic call, and writes an overlay mapping the
// original paths to the instrumented copies. Splicing by byte offset keeps line numbers intact;
// stripping the inserted text gives back the original bytes (checked on every run).
package main

import (
	"bytes"
	"encoding/json"
	"flag"
	"fmt"
	"go/ast"
	"go/parser"
	"go/token"
	"os"
	"path/filepath"
	"sort"
	"strings"
)

var files = []string{"grpcgcp/gcp_balancer.go", "grpcgcp/gcp_picker.go", "grpcgcp/gcp_interceptor.go", "grpcgcp/gcp_multiendpoint.go", "grpcgcp/multiendpoint/multiendpoint.go"}

func isSyncCall(n ast.Node) bool {
	c, ok := n.(*ast.CallExpr)
	if !ok {
		return false
	}
	s, ok := c.Fun.(*ast.SelectorExpr)
	if !ok {
		return false
	}
	switch s.Sel.Name {
	case "Lock", "RLock", "Unlock", "RUnlock", "Wait", "Broadcast", "Signal":
		return true
	}
	if x, ok := s.X.(*ast.Ident); ok && x.Name == "atomic" {
		return true
	}
	return false
}

// shallow reports whether stmt contains a sync call outside nested blocks and function literals.
func shallow(stmt ast.Stmt) bool {
	found := false
	ast.Inspect(stmt, func(n ast.Node) bool {
		if found {
			return false
		}
		switch n.(type) {
		case *ast.BlockStmt, *ast.FuncLit:
			return false
		}
		if isSyncCall(n) {
			found = true
		}
		return true
	})
	return found
}

func main() {
	repo := flag.String("repo", "/repo", "repository root")
	out := flag.String("out", "", "output directory")
	flag.Parse()
	overlay := map[string]string{}
	total := 0
	for _, rel := range files {
		path := filepath.Join(*repo, rel)
		src, err := os.ReadFile(path)
		if err != nil {
			fmt.Fprintln(os.Stderr, err)
			os.Exit(1)
		}
		fset := token.NewFileSet()
		f, err := parser.ParseFile(fset, path, src, parser.ParseComments)
		if err != nil {
			fmt.Fprintln(os.Stderr, err)
			os.Exit(1)
		}
		var offs []int
		visit := func(list []ast.Stmt) {
			for _, st := range list {
				switch st.(type) {
				case *ast.BlockStmt, *ast.CaseClause, *ast.CommClause:
					continue
				}
				if shallow(st) {
					offs = append(offs, fset.Position(st.Pos()).Offset)
				}
			}
		}
		ast.Inspect(f, func(n ast.Node) bool {
			switch x := n.(type) {
			case *ast.BlockStmt:
				visit(x.List)
			case *ast.CaseClause:
				visit(x.Body)
			case *ast.CommClause:
				visit(x.Body)
			}
			return true
		})
		sort.Sort(sort.Reverse(sort.IntSlice(offs)))
		res := append([]byte{}, src...)
		base := filepath.Base(rel)
		for _, o := range offs {
			line := 1 + bytes.Count(src[:o], []byte("\n"))
			ins := fmt.Sprintf("verifYield(%q); ", fmt.Sprintf("%s:%d", base, line))
			res = append(res[:o], append([]byte(ins), res[o:]...)...)
		}
		// self-test: stripping the insertions restores the original
		chk := string(res)
		for {
			i := strings.Index(chk, "verifYield(\"")
			if i < 0 {
				break
			}
			j := strings.Index(chk[i:], "); ")
			chk = chk[:i] + chk[i+j+3:]
		}
		if chk != string(src) {
			fmt.Fprintln(os.Stderr, "self-test failed for", rel)
			os.Exit(1)
		}
		dst := filepath.Join(*out, strings.ReplaceAll(rel, "/", "_"))
		if err := os.WriteFile(dst, res, 0o644); err != nil {
			fmt.Fprintln(os.Stderr, err)
			os.Exit(1)
		}
		overlay[path] = dst
		total += len(offs)
		fmt.Printf("%s: %d yield points\n", rel, len(offs))
	}
	b, _ := json.Marshal(map[string]interface{}{"Replace": overlay, "points": total})
	os.WriteFile(filepath.Join(*out, "overlay.json"), b, 0o644)
}
