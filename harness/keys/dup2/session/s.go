// Package session (variant 2): same printed type names as dup1, different layout.
package session

// Session is message shape 2.
type Session struct {
	Token string
	Extra int32
	Name  string
	Items []*Item
}

// Item is nested.
type Item struct {
	Other string
	Key   string
}
