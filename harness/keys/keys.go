// Package keys checks affinity-key extraction (C11) against an independent reference traversal
// written from the property statement, over generated (type, value, locator) triples.
package keys

import (
	"errors"
	"fmt"
	"google.golang.org/protobuf/types/known/structpb"
	"reflect"
	"strings"
	"unicode"
	"verifharness/hx"

	"github.com/GoogleCloudPlatform/grpc-gcp-go/grpcgcp"
	pb "github.com/GoogleCloudPlatform/grpc-gcp-go/grpcgcp/grpc_gcp"
	hw "github.com/GoogleCloudPlatform/grpc-gcp-go/grpcgcp/test_grpc/helloworld/helloworld"
	s1 "verifharness/keys/dup1/session"
	s2 "verifharness/keys/dup2/session"
)

// T is a type shape of the proto-like domain.
type T struct {
	Kind   string `json:"kind"` // string int bool pstring struct ptr strs ints ptrs structs
	Fields []F    `json:"fields,omitempty"`
}

// F is a struct field.
type F struct {
	Name string `json:"name"`
	T    T      `json:"t"`
}

// V is a value fill for a T.
type V struct {
	Nil    bool   `json:"nil,omitempty"`
	S      string `json:"s,omitempty"`
	I      int64  `json:"i,omitempty"`
	Items  []V    `json:"items,omitempty"`
	Fields []V    `json:"fields,omitempty"`
}

// Case is one generated input.
type Case struct {
	Property string `json:"property,omitempty"`
	Exotic   int    `json:"exotic,omitempty"` // >0: index+1 into the exotic value table
	T        *T     `json:"t,omitempty"`
	V        *V     `json:"v,omitempty"`
	ByValue  bool   `json:"byValue,omitempty"`
	// Prev: another value of the same type, extracted with the same locator just before (result ignored). The result for V
	// is then compared with the result for a copy of V whose struct types are fresh (never seen by the library): what
	// extraction returns must depend on the value and the locator only, not on what was extracted before.
	Prev *V `json:"previousValueOfTheSameType,omitempty"`
	// Long > 0: the value is a message that refers to itself (n.N == n, n.Ns == [n]) and the locator is LongSeg + "."
	// repeated Long times, followed by Locator: the depth of the walk is given by the locator alone. Expected: the key
	// "cyc" (for paths through n / ns that end in name) or an error - and the process survives.
	Long    int    `json:"longLocatorRepeat,omitempty"`
	LongSeg string `json:"longLocatorSegment,omitempty"`
	// Twin names a scripted two-type scenario (see twinScenario)
	Twin    string   `json:"twinScenario,omitempty"`
	Locator string   `json:"locator"`
	Failure string   `json:"failure,omitempty"`
	Got     []string `json:"got,omitempty"`
	Want    []string `json:"want,omitempty"`
}

// freshTag, when set, is attached to every field of the struct types built: a struct tag is part of a type's identity, so
// the types are distinct from (and laid out exactly like) the untagged ones.
var freshTag string
var freshSeq int

func (t T) structType() reflect.Type {
	var fs []reflect.StructField
	for _, f := range t.Fields {
		fs = append(fs, reflect.StructField{Name: f.Name, Type: f.T.rtype(), Tag: reflect.StructTag(freshTag)})
	}
	return reflect.StructOf(fs)
}

func (t T) rtype() reflect.Type {
	switch t.Kind {
	case "string":
		return reflect.TypeOf("")
	case "int":
		return reflect.TypeOf(int32(0))
	case "bool":
		return reflect.TypeOf(false)
	case "pstring":
		return reflect.TypeOf((*string)(nil))
	case "strs":
		return reflect.TypeOf([]string{})
	case "ints":
		return reflect.TypeOf([]int64{})
	case "struct":
		return t.structType()
	case "ptr":
		return reflect.PointerTo(t.structType())
	case "ptrs":
		return reflect.SliceOf(reflect.PointerTo(t.structType()))
	case "structs":
		return reflect.SliceOf(t.structType())
	case "iface", "ifacev":
		return ifaceType
	case "ifaces":
		return reflect.SliceOf(ifaceType)
	case "pptr":
		return reflect.PointerTo(reflect.PointerTo(t.structType()))
	}
	return reflect.TypeOf("")
}

var ifaceType = reflect.TypeOf((*interface{})(nil)).Elem()

// fill sets rv (addressable, of type t.rtype()) from v.
func fill(t T, v V, rv reflect.Value) {
	fillStruct := func(sv reflect.Value, v V) {
		for i, f := range t.Fields {
			var fv V
			if i < len(v.Fields) {
				fv = v.Fields[i]
			}
			fill(f.T, fv, sv.Field(i))
		}
	}
	switch t.Kind {
	case "string":
		rv.SetString(v.S)
	case "int":
		rv.SetInt(v.I)
	case "bool":
		rv.SetBool(v.I != 0)
	case "pstring":
		if !v.Nil {
			s := v.S
			rv.Set(reflect.ValueOf(&s))
		}
	case "strs":
		if !v.Nil {
			s := reflect.MakeSlice(rv.Type(), len(v.Items), len(v.Items))
			for i, it := range v.Items {
				s.Index(i).SetString(it.S)
			}
			rv.Set(s)
		}
	case "ints":
		if !v.Nil {
			s := reflect.MakeSlice(rv.Type(), len(v.Items), len(v.Items))
			for i, it := range v.Items {
				s.Index(i).SetInt(it.I)
			}
			rv.Set(s)
		}
	case "struct":
		fillStruct(rv, v)
	case "ptr":
		if !v.Nil {
			p := reflect.New(rv.Type().Elem())
			fillStruct(p.Elem(), v)
			rv.Set(p)
		}
	case "ptrs":
		if !v.Nil {
			s := reflect.MakeSlice(rv.Type(), len(v.Items), len(v.Items))
			for i, it := range v.Items {
				if !it.Nil {
					p := reflect.New(rv.Type().Elem().Elem())
					fillStruct(p.Elem(), it)
					s.Index(i).Set(p)
				}
			}
			rv.Set(s)
		}
	case "structs":
		if !v.Nil {
			s := reflect.MakeSlice(rv.Type(), len(v.Items), len(v.Items))
			for i, it := range v.Items {
				fillStruct(s.Index(i), it)
			}
			rv.Set(s)
		}
	case "iface":
		// the shape generated code gives a protobuf oneof: an interface holding a pointer to a message
		if !v.Nil {
			p := reflect.New(t.structType())
			fillStruct(p.Elem(), v)
			rv.Set(p)
		}
	case "ifacev":
		if !v.Nil {
			p := reflect.New(t.structType())
			fillStruct(p.Elem(), v)
			rv.Set(p.Elem())
		}
	case "ifaces":
		if !v.Nil {
			s := reflect.MakeSlice(rv.Type(), len(v.Items), len(v.Items))
			for i, it := range v.Items {
				if !it.Nil {
					p := reflect.New(t.structType())
					fillStruct(p.Elem(), it)
					s.Index(i).Set(p)
				}
			}
			rv.Set(s)
		}
	case "pptr":
		if !v.Nil {
			p := reflect.New(t.structType())
			fillStruct(p.Elem(), v)
			pp := reflect.New(p.Type())
			pp.Elem().Set(p)
			rv.Set(pp)
		}
	}
}

// Paths enumerates every field path of t (first letter lower-cased), to any depth.
func Paths(t T, prefix []string, out *[]string) {
	for _, f := range t.Fields {
		seg := strings.ToLower(f.Name[:1]) + f.Name[1:]
		p := append(append([]string{}, prefix...), seg)
		*out = append(*out, strings.Join(p, "."))
		Paths(f.T, p, out)
	}
}

var errRef = errors.New("reference: error")

func upperFirst(s string) string {
	r := []rune(s)
	if len(r) == 0 {
		return s
	}
	r[0] = unicode.ToUpper(r[0])
	return string(r)
}

// Ref is the reference traversal written from the statement of C11.
func Ref(v reflect.Value, path []string, i int) ([]string, error) {
	if !v.IsValid() {
		return nil, errRef // nil message
	}
	// "through nested messages and pointers": every level of pointer / interface (a oneof is an interface
	// holding a pointer)
	for n := 0; n < 32 && (v.Kind() == reflect.Pointer || v.Kind() == reflect.Interface); n++ {
		if v.IsNil() {
			return nil, errRef // nil (nested) message
		}
		v = v.Elem()
	}
	if i == len(path) {
		if v.Kind() != reflect.String {
			return nil, errRef // ends on a non-string value
		}
		return []string{v.String()}, nil
	}
	if v.Kind() != reflect.Struct {
		return nil, errRef // crosses a non-message value
	}
	name := upperFirst(path[i])
	if _, ok := v.Type().FieldByName(name); !ok || name == "" {
		return nil, errRef // missing field
	}
	fv := v.FieldByName(name)
	if fv.Kind() == reflect.Slice {
		keys := []string{}
		for j := 0; j < fv.Len(); j++ {
			k, err := Ref(fv.Index(j), path, i+1)
			if err != nil {
				return nil, err
			}
			keys = append(keys, k...)
		}
		return keys, nil
	}
	return Ref(fv, path, i+1)
}

// simpleLocator: the documented segment -> field-name convention is unambiguous.
func simpleLocator(loc string) bool {
	for _, seg := range strings.Split(loc, ".") {
		for _, r := range seg {
			if !(r >= 'a' && r <= 'z' || r >= 'A' && r <= 'Z' || r >= '0' && r <= '9' || r == '_') {
				return false
			}
		}
	}
	return true
}

// ---- exotic domain -----------------------------------------------------------------------------

type inner struct {
	Key  string
	Keys []string
}
type embedsPtr struct {
	*inner
	Other string
}

// ambiguous promoted fields: Name is promoted from two embedded structs of the same depth, so the struct has NO field
// Name (Go's selector rules); Only is promoted from one of them.
type ambA struct {
	Name string
	Only string
}
type ambB struct{ Name string }
type amb struct {
	ambA
	ambB
	Other string
}

// sharedItems: the Names slices of the items are windows into one backing array with spare capacity behind them.
type sharedItem struct{ Names []string }
type sharedItems struct{ Items []*sharedItem }

func newSharedItems() *sharedItems {
	backing := []string{"n0", "n1", "n2", "n3", "n4", "n5"}
	return &sharedItems{Items: []*sharedItem{{Names: backing[1:2]}, {Names: backing[0:1]}, {Names: backing[2:4]}, {Names: backing[4:5]}}}
}

// dump renders a value deeply (pointers followed, bounded depth; slices with the elements BEHIND their length up to
// the capacity, which belong to the caller too) for the "extraction does not change the message" comparison.
func dump(v reflect.Value, depth int) string {
	if !v.IsValid() || depth > 6 {
		return "?"
	}
	switch v.Kind() {
	case reflect.Pointer, reflect.Interface:
		if v.IsNil() {
			return "nil"
		}
		return "&" + dump(v.Elem(), depth+1)
	case reflect.Struct:
		out := "{"
		for i := 0; i < v.NumField(); i++ {
			out += v.Type().Field(i).Name + ":" + dump(v.Field(i), depth+1) + " "
		}
		return out + "}"
	case reflect.Slice:
		if v.IsNil() {
			return "nil[]"
		}
		full := v
		if v.Cap() > v.Len() && v.Cap()-v.Len() <= 16 && v.CanInterface() {
			full = v.Slice(0, v.Cap())
		}
		out := fmt.Sprintf("[len=%d:", v.Len())
		for i := 0; i < full.Len() && i < 80; i++ {
			out += dump(full.Index(i), depth+1) + ","
		}
		return out + "]"
	case reflect.Array:
		out := "["
		for i := 0; i < v.Len() && i < 80; i++ {
			out += dump(v.Index(i), depth+1) + ","
		}
		return out + "]"
	case reflect.String:
		s := v.String()
		if len(s) > 40 {
			s = s[:40]
		}
		return fmt.Sprintf("%q", s)
	case reflect.Map:
		return fmt.Sprintf("map(%d)", v.Len())
	case reflect.Func, reflect.Chan, reflect.UnsafePointer:
		return v.Kind().String()
	}
	if v.CanInterface() {
		return fmt.Sprint(v.Interface())
	}
	return v.Kind().String()
}

// cyc is a message that can refer to itself.
type cyc struct {
	Name string
	N    *cyc
	Ns   []*cyc
}

// longLocator: see Case.Long. The case is written to the replay file BEFORE the call: a stack overflow kills the
// process and cannot be caught.
func longLocator(c *Case) string {
	n := &cyc{Name: "cyc"}
	n.N, n.Ns = n, []*cyc{n}
	seg := c.LongSeg
	if seg != "n" && seg != "ns" {
		seg = "n"
	}
	loc := strings.Repeat(seg+".", c.Long) + c.Locator
	pre := *c
	pre.Failure, pre.Property = fmt.Sprintf("the process did not survive a locator of %d segments on a self-referencing message (stack overflow?)", c.Long+1), "C11"
	hx.WriteReplay("C11", &pre)
	var got []string
	var err error
	var p interface{}
	func() {
		defer func() { p = recover() }()
		got, err = grpcgcp.VerifKeys(loc, n)
	}()
	hx.DropReplay("C11")
	if p != nil {
		return fmt.Sprintf("extraction panicked on a locator of %d segments: %v", c.Long+1, p)
	}
	if err == nil && c.Locator == "name" && (len(got) != 1 || got[0] != "cyc") {
		return fmt.Sprintf("locator of %d segments through a self-referencing message returned %q, want [\"cyc\"] or an error", c.Long+1, got)
	}
	if err == nil && c.Locator != "name" && len(got) > 0 {
		return fmt.Sprintf("locator %s^%d.%s returned keys %q", seg, c.Long, c.Locator, got)
	}
	return ""
}

// embedsPtrB is laid out exactly like embedsPtr (the twin the library meets later, see twinScenario).
type embedsPtrB struct {
	*inner
	Other string
}

// TwinScenarios: scripted orders over two identical types. The first type is used with a hostile value first (a nil
// embedded pointer, a nil nested pointer, an empty list), then both types with the same good value: the results must agree.
var TwinScenarios = []string{"embedded-pointer-nil-first", "nested-pointer-nil-first"}

type nestA struct {
	Sub  *inner
	Subs []*inner
}
type nestB struct {
	Sub  *inner
	Subs []*inner
}

func twinScenario(c *Case) string {
	in := &inner{Key: "x", Keys: []string{"p", "q"}}
	var first, a, b interface{}
	switch c.Twin {
	case "embedded-pointer-nil-first":
		first, a, b = &embedsPtr{Other: "o"}, &embedsPtr{inner: in, Other: "o"}, &embedsPtrB{inner: in, Other: "o"}
	default:
		first, a, b = &nestA{Subs: []*inner{nil}}, &nestA{Sub: in, Subs: []*inner{in}}, &nestB{Sub: in, Subs: []*inner{in}}
	}
	ex := func(m interface{}) (k []string, err error, p interface{}) {
		defer func() { p = recover() }()
		k, err = grpcgcp.VerifKeys(c.Locator, m)
		return
	}
	if _, _, p := ex(first); p != nil {
		return fmt.Sprintf("extraction panicked: locator %q message %+v: %v", c.Locator, first, p)
	}
	ka, ea, pa := ex(a)
	kb, eb, pb := ex(b)
	if pa != nil || pb != nil {
		return fmt.Sprintf("extraction panicked: locator %q: %v %v", c.Locator, pa, pb)
	}
	if (ea != nil) != (eb != nil) || (ea == nil && fmt.Sprintf("%q", ka) != fmt.Sprintf("%q", kb)) {
		return fmt.Sprintf("locator %q: %T (a value with a nil pointer of this type was extracted first) gives keys=%q err=%v, the identical %T gives keys=%q err=%v", c.Locator, a, ka, ea, b, kb, eb)
	}
	return ""
}

type embedsVal struct {
	inner
	Other string
}
type unexported struct {
	key  string
	Key  string
	keys []string
}
type iface struct {
	Any  interface{}
	Anys []interface{}
}

// odd field names: a leading underscore or a caseless first letter makes a field unexported although
// strings.Title leaves the locator segment as it is, so a locator can name it; underscores elsewhere are
// what protoc-gen-go produces for fields like shard_1.
type oddNames struct {
	_ids    []string
	_id     string
	名前      string
	名前たち    []string
	Key_2   string
	Shard_1 []string
	X_      string
	In_     *inner
}

// fields promoted through several levels of embedding, with siblings at every level
type emb7 struct{ Name7, Region7, Zone7 string }
type emb6 struct {
	emb7
	Name6, Region6 string
}
type emb5 struct {
	emb6
	Name5, Region5 string
}
type emb4 struct {
	emb5
	Name4, Region4 string
}
type Emb3 struct {
	Name, Region, Zone string
	Names              []string
}
type Emb2 struct {
	Emb3
	Alpha, Beta string
}
type Emb1 struct {
	Emb2
	emb4
	Gamma string
}
type embTop struct {
	Emb1
	Delta string
	Sub   *embTop
}

type exoticT struct {
	M    map[string]string
	MP   map[string]*inner
	PP   **inner
	Arr  [2]string
	ArrP [2]*inner
	SS   [][]string
	F    func()
	C    chan int
	B    []byte
	U    uintptr
	Err  error
	In   inner
	PIn  *inner
}

func exotics() []interface{} {
	in := &inner{Key: "x", Keys: []string{"p", "q"}}
	pin := &in
	return []interface{}{
		embedsPtr{Other: "o"}, &embedsPtr{Other: "o"}, &embedsPtr{inner: in, Other: "o"},
		&amb{ambA: ambA{Name: "a-name", Only: "only"}, ambB: ambB{Name: "b-name"}, Other: "o"}, newSharedItems(),
		embedsVal{inner: *in}, &embedsVal{},
		unexported{key: "u", Key: "e", keys: []string{"z"}}, &unexported{},
		iface{Any: in, Anys: []interface{}{in, "s", nil, 3}}, &iface{Any: "str"}, &iface{Any: *in}, &iface{},
		exoticT{}, &exoticT{M: map[string]string{"a": "b"}, MP: map[string]*inner{"a": in}, PP: pin, Arr: [2]string{"a0", "a1"}, ArrP: [2]*inner{in, nil}, SS: [][]string{{"s0"}, nil}, B: []byte("bytes"), In: *in, PIn: in},
		map[string]string{"key": "v"}, map[string]interface{}{"Key": "v"}, []string{"a"}, []*inner{in}, [1]inner{*in}, "plain string", 42, 3.5, true, nil, (*inner)(nil), (**inner)(nil), pin, &pin,
		func() {}, make(chan int), errors.New("e"), struct{}{}, &struct{ Key *string }{},
		&embTop{Emb1: Emb1{Emb2: Emb2{Emb3: Emb3{Name: "n3", Region: "r3", Zone: "z3", Names: []string{"ns1", "ns2"}}, Alpha: "a2", Beta: "b2"},
			emb4: emb4{emb5: emb5{emb6: emb6{emb7: emb7{"n7", "r7", "z7"}, Name6: "n6", Region6: "r6"}, Name5: "n5", Region5: "r5"}, Name4: "n4", Region4: "r4"}, Gamma: "g1"}, Delta: "d0",
			Sub: &embTop{Emb1: Emb1{Emb2: Emb2{Emb3: Emb3{Name: "sn3", Region: "sr3", Zone: "sz3"}}}}},
		embTop{},
		structpb.NewStringValue("oneof-string"), structpb.NewNumberValue(3), &structpb.Value{}, &structpb.ListValue{Values: []*structpb.Value{structpb.NewStringValue("l1"), structpb.NewStringValue("l2")}},
		&structpb.ListValue{Values: []*structpb.Value{structpb.NewStringValue("l1"), structpb.NewBoolValue(true)}}, structpb.NewListValue(&structpb.ListValue{Values: []*structpb.Value{structpb.NewStringValue("deep")}}),
		&oddNames{_ids: []string{"u1", "u2"}, _id: "u0", 名前: "n", 名前たち: []string{"n1"}, Key_2: "k2", Shard_1: []string{"s1", "s2"}, X_: "x", In_: in}, oddNames{_ids: []string{"v"}}, &oddNames{},
		&pb.ApiConfig{}, &pb.ApiConfig{ChannelPool: &pb.ChannelPoolConfig{MaxSize: 3}, Method: []*pb.MethodConfig{{Name: []string{"m1", "m2"}, Affinity: &pb.AffinityConfig{AffinityKey: "k"}}, nil, {Name: nil}}},
		(*pb.ApiConfig)(nil), &hw.HelloRequest{Name: "n"}, &hw.HelloReply{}, hw.HelloRequest{Name: "byvalue"},
		// two distinct types with the same printed name ("session.Session") and different layouts
		&s1.Session{Name: "name-1", Token: "secret-1", Items: []*s1.Item{{Key: "i1"}}}, &s2.Session{Name: "name-2", Token: "secret-2", Items: []*s2.Item{{Other: "o2", Key: "i2"}}},
		&s1.Session{Name: "name-3"}, s2.Session{Token: "secret-4"},
	}
}

// ExoticLocators are tried against the exotic values.
var ExoticLocators = []string{"items.names", "only", "ambA.name", "key", "keys", "Key", "other", "inner.key", "inner", "any", "any.key", "anys", "anys.key", "m", "m.a", "mP.a.key", "pP.key", "pP", "arr", "arrP.key", "sS", "f", "c", "b", "u", "err", "in.key", "in.keys", "pIn.key", "pIn.keys",
	"token", "items.key", "items.other", "items", "extra", "channelPool.maxSize", "channelPool", "method.name", "method.affinity.affinityKey", "method.affinity", "name", "message", "state", "sizeCache", "unknownFields", "", ".", "..", "key.", ".key", "key..x", "a.b.c.d.e.f", "kéy", "ключ", "key key", "KEY", "\x00", "key\n",
	"region", "zone", "names", "alpha", "beta", "gamma", "delta", "name4", "region4", "name5", "region5", "name6", "region6", "name7", "region7", "zone7", "sub.name", "sub.region", "sub.zone", "sub.alpha", "sub.sub.name",
	"emb1.name", "emb1.emb2.emb3.region", "emb3.zone", "emb2.beta",
	"kind.stringValue", "kind.numberValue", "kind", "values.kind.stringValue", "values.kind", "kind.listValue.values.kind.stringValue", "values",
	"_ids", "_id", "名前", "名前たち", "key_2", "shard_1", "x_", "in_.key", "in_.keys", "in_._", "_", "__", "key_", "_key", "in__key", "_.key", "key._"}

// reachable collects every string reachable in v.
func reachable(v reflect.Value, depth int, out map[string]bool) {
	if !v.IsValid() || depth > 8 {
		return
	}
	switch v.Kind() {
	case reflect.String:
		out[v.String()] = true
	case reflect.Pointer, reflect.Interface:
		if !v.IsNil() {
			reachable(v.Elem(), depth+1, out)
		}
	case reflect.Struct:
		for i := 0; i < v.NumField(); i++ {
			reachable(v.Field(i), depth+1, out)
		}
	case reflect.Slice, reflect.Array:
		for i := 0; i < v.Len(); i++ {
			reachable(v.Index(i), depth+1, out)
		}
	case reflect.Map:
		it := v.MapRange()
		for it.Next() {
			reachable(it.Key(), depth+1, out)
			reachable(it.Value(), depth+1, out)
		}
	}
}

// normName: how a path segment is matched with a Go field name is the library's business (today: strings.Title);
// the oracle only assumes that case and underscores are all that may differ.
func normName(s string) string { return strings.ToLower(strings.ReplaceAll(s, "_", "")) }

// namedStrings collects every string stored (directly, behind pointers/interfaces, or as an element of a slice/array)
// in a struct field called name, anywhere in v.
func namedStrings(v reflect.Value, name string, depth int, out map[string]bool) {
	if !v.IsValid() || depth > 12 {
		return
	}
	switch v.Kind() {
	case reflect.Pointer, reflect.Interface:
		if !v.IsNil() {
			namedStrings(v.Elem(), name, depth+1, out)
		}
	case reflect.Struct:
		for i := 0; i < v.NumField(); i++ {
			if normName(v.Type().Field(i).Name) == name {
				reachable(v.Field(i), 0, out)
			}
			namedStrings(v.Field(i), name, depth+1, out)
		}
	case reflect.Slice, reflect.Array:
		for i := 0; i < v.Len(); i++ {
			namedStrings(v.Index(i), name, depth+1, out)
		}
	case reflect.Map:
		it := v.MapRange()
		for it.Next() {
			namedStrings(it.Value(), name, depth+1, out)
		}
	}
}

// protoLike reports whether values of type t lie in the domain on which the statement defines the
// traversal exactly: structs without embedded fields (unexported fields can never be named by a
// locator), single pointers to structs or strings, scalars, and slices of those.
func protoLike(t reflect.Type, seen map[reflect.Type]bool) bool {
	if t == nil {
		return true // nil message: error
	}
	if seen[t] {
		return true
	}
	seen[t] = true
	scalar := func(k reflect.Kind) bool {
		switch k {
		case reflect.String, reflect.Bool, reflect.Int, reflect.Int32, reflect.Int64, reflect.Uint32, reflect.Uint64, reflect.Float32, reflect.Float64, reflect.Uint8:
			return true
		}
		return false
	}
	structOK := func(st reflect.Type) bool {
		for i := 0; i < st.NumField(); i++ {
			f := st.Field(i)
			if f.Anonymous {
				return false
			}
			if !f.IsExported() {
				continue
			}
			if !protoLike(f.Type, seen) {
				return false
			}
		}
		return true
	}
	switch t.Kind() {
	case reflect.Struct:
		return structOK(t)
	case reflect.Interface:
		return true // whatever it holds, the traversal of the value is defined (Ref works on values)
	case reflect.Pointer:
		e := t.Elem()
		if e.Kind() == reflect.Pointer {
			return protoLike(e, seen)
		}
		return e.Kind() == reflect.String || (e.Kind() == reflect.Struct && protoLike(e, seen))
	case reflect.Slice:
		e := t.Elem()
		if scalar(e.Kind()) {
			return true
		}
		if e.Kind() == reflect.Struct {
			return protoLike(e, seen)
		}
		if e.Kind() == reflect.Interface {
			return true
		}
		return e.Kind() == reflect.Pointer && e.Elem().Kind() == reflect.Struct && protoLike(e.Elem(), seen)
	}
	return scalar(t.Kind())
}

// Result classes.
const (
	ClsErr   = "error"
	ClsEmpty = "ok-empty-list"
	ClsOne   = "ok-one-key"
	ClsMany  = "ok-several-keys"
)

// Check runs the extractor on c and compares with the oracle. It returns the failure text ("" =
// pass) and the labels of the case.
func Check(c *Case) (failure string, labels map[string]int, nontrivial bool) {
	labels = map[string]int{}
	var msg interface{}
	if c.Long > 0 {
		labels["self-referencing-message-with-a-long-locator"]++
		return longLocator(c), labels, true
	}
	if c.Twin != "" {
		f := twinScenario(c)
		labels["twin-type-scenario"]++
		return f, labels, true
	}
	proto := c.Exotic == 0
	build := func(v *V) interface{} {
		rv := reflect.New(c.T.structType())
		fill(T{Kind: "struct", Fields: c.T.Fields}, *v, rv.Elem())
		if c.ByValue {
			return rv.Elem().Interface()
		}
		return rv.Interface()
	}
	if proto && c.Prev != nil {
		var p interface{}
		func() {
			defer func() { p = recover() }()
			grpcgcp.VerifKeys(c.Locator, build(c.Prev))
		}()
		if p != nil {
			return fmt.Sprintf("extraction panicked on the previous value: locator %q: %v", c.Locator, p), labels, true
		}
		labels["another-value-of-the-type-extracted-before"]++
	}
	if proto {
		msg = build(c.V)
	} else {
		ex := exotics()
		msg = ex[(c.Exotic-1)%len(ex)]
		labels["exotic"]++
	}
	// the reference traversal runs BEFORE the library sees the message: an extraction that writes into the message
	// (its slices are the caller's) must not be able to make the reference agree with it
	exact := (proto || protoLike(reflect.TypeOf(msg), map[reflect.Type]bool{})) && simpleLocator(c.Locator)
	var preWant []string
	var preErr error
	if exact {
		preWant, preErr = Ref(reflect.ValueOf(msg), strings.Split(c.Locator, "."), 0)
	}
	before := fmt.Sprintf("%+v", dump(reflect.ValueOf(msg), 0))
	var got []string
	var gerr error
	var panicked interface{}
	func() {
		defer func() { panicked = recover() }()
		got, gerr = grpcgcp.VerifKeys(c.Locator, msg)
	}()
	if panicked == nil {
		if after := fmt.Sprintf("%+v", dump(reflect.ValueOf(msg), 0)); after != before {
			return fmt.Sprintf("extraction changed the message: locator %q, before %s, after %s", c.Locator, before, after), labels, true
		}
	}
	c.Got = got
	if panicked != nil {
		return fmt.Sprintf("extraction panicked: locator %q message %T %+v: %v", c.Locator, msg, msg, panicked), labels, true
	}
	if proto && c.Prev != nil && freshSeq < 6000 { // reflect keeps every struct type it ever built: bounded per process
		freshSeq++
		freshTag = fmt.Sprintf(`verif:"%d"`, freshSeq)
		twin := build(c.V)
		freshTag = ""
		var tgot []string
		var terr error
		var p interface{}
		func() {
			defer func() { p = recover() }()
			tgot, terr = grpcgcp.VerifKeys(c.Locator, twin)
		}()
		if p != nil {
			return fmt.Sprintf("extraction panicked on the copy with fresh types: locator %q: %v", c.Locator, p), labels, true
		}
		if (terr != nil) != (gerr != nil) || (gerr == nil && fmt.Sprintf("%q", tgot) != fmt.Sprintf("%q", got)) {
			return fmt.Sprintf("locator %q: after another value of the same type was extracted, the message %+v gives keys=%q err=%v; an identical message of a type the library has not seen gives keys=%q err=%v", c.Locator, msg, got, gerr, tgot, terr), labels, true
		}
	}
	if gerr != nil && got != nil && len(got) > 0 {
		labels["partial-keys-with-error"]++
	}
	switch {
	case gerr != nil:
		labels[ClsErr]++
	case len(got) == 0:
		labels[ClsEmpty]++
	case len(got) == 1:
		labels[ClsOne]++
	default:
		labels[ClsMany]++
	}
	if !(proto || protoLike(reflect.TypeOf(msg), map[reflect.Type]bool{})) || !simpleLocator(c.Locator) {
		labels["totality-and-soundness-only"]++
		if gerr == nil && simpleLocator(c.Locator) {
			// "a path that names a missing field is an error": by Go's selector rules a name promoted from two embedded
			// structs of the same depth names no field
			tv := reflect.ValueOf(msg)
			for i := 0; i < 4 && tv.IsValid() && (tv.Kind() == reflect.Pointer || tv.Kind() == reflect.Interface) && !tv.IsNil(); i++ {
				tv = tv.Elem()
			}
			if tv.IsValid() && tv.Kind() == reflect.Struct {
				seg := strings.Split(c.Locator, ".")[0]
				if _, ok := tv.Type().FieldByName(upperFirst(seg)); !ok && seg != "" {
					if _, ok2 := tv.Type().FieldByName(strings.Title(seg)); !ok2 {
						return fmt.Sprintf("locator %q: %T has no field %q (ambiguous or missing), extraction returned keys=%q instead of an error", c.Locator, msg, seg, got), labels, true
					}
				}
			}
		}
		if gerr == nil {
			reach := map[string]bool{}
			reachable(reflect.ValueOf(msg), 0, reach)
			for _, k := range got {
				if !reach[k] {
					return fmt.Sprintf("soundness: returned key %q is not a string reachable in the message (locator %q, message %T %+v)", k, c.Locator, msg, msg), labels, true
				}
			}
			// "the string values reached by following the path": whatever the shape of the value, a returned key is stored
			// in a field that carries the name of the last path segment
			segs := strings.Split(c.Locator, ".")
			if last := segs[len(segs)-1]; last != "" {
				named := map[string]bool{}
				namedStrings(reflect.ValueOf(msg), normName(last), 0, named)
				for _, k := range got {
					if !named[k] {
						return fmt.Sprintf("soundness: returned key %q is not stored in any field whose name matches %q (locator %q, message %T %+v)", k, last, c.Locator, msg, msg), labels, true
					}
				}
				labels["keys-checked-against-field-name"]++
			}
		}
		return "", labels, true
	}
	want, werr := preWant, preErr
	c.Want = want
	if (gerr != nil) != (werr != nil) {
		return fmt.Sprintf("locator %q message %+v: extractor returned keys=%q err=%v, the reference traversal keys=%q err=%v", c.Locator, msg, got, gerr, want, werr), labels, true
	}
	if gerr == nil && fmt.Sprintf("%q", got) != fmt.Sprintf("%q", want) {
		return fmt.Sprintf("locator %q message %+v: extractor returned %q, the reference traversal %q", c.Locator, msg, got, want), labels, true
	}
	if !proto {
		labels["exotic-value-of-proto-like-shape-exact-oracle"]++
		return "", labels, true
	}
	// non-trivial: the path crosses a repeated field or a pointer and something nil/empty is around
	nt := pathCrosses(c.T, strings.Split(c.Locator, ".")) && hasNilOrEmpty(*c.V)
	if nt {
		labels["crosses-repeated-or-pointer-with-nil-or-empty"]++
	}
	return "", labels, nt
}

func pathCrosses(t *T, path []string) bool {
	cur := *t
	for _, seg := range path {
		found := false
		for _, f := range cur.Fields {
			if f.Name == upperFirst(seg) {
				switch f.T.Kind {
				case "ptr", "ptrs", "structs", "strs", "pstring", "iface", "ifacev", "ifaces", "pptr":
					return true
				}
				cur, found = f.T, true
				break
			}
		}
		if !found {
			return false
		}
	}
	return false
}

func hasNilOrEmpty(v V) bool {
	if v.Nil {
		return true
	}
	for _, f := range v.Fields {
		if hasNilOrEmpty(f) {
			return true
		}
	}
	for _, f := range v.Items {
		if hasNilOrEmpty(f) {
			return true
		}
	}
	return false
}
