// Package session (variant 1) and its twin in dup2 define different types with the same printed name.
package session

// Session is message shape 1.
type Session struct {
	Name  string
	Token string
	Items []*Item
}

// Item is nested.
type Item struct{ Key string }
