package keys

import (
	"os"
	"strings"
	"testing"

	"pgregory.net/rapid"
	"verifharness/hx"
)

func TestMain(m *testing.M) {
	hx.Quiet()
	code := m.Run()
	hx.Flush()
	os.Exit(code)
}

var fieldNames = []string{"A", "B", "K", "Lst", "Key"}

var longKey = strings.Repeat("long-affinity-key/", 80)

var chainMode bool

func genT(rt *rapid.T, depth int) T {
	if chainMode && depth > 0 {
		// one nested field per level keeps deep types small
		k := rapid.SampledFrom([]string{"ptr", "ptr", "struct", "ptrs", "structs", "iface", "pptr"}).Draw(rt, "chainkind")
		name := rapid.SampledFrom(fieldNames).Draw(rt, "chainname")
		other := "Key"
		if name == "Key" {
			other = "K"
		}
		return T{Kind: "struct", Fields: []F{{Name: name, T: T{Kind: k, Fields: genT(rt, depth-1).Fields}}, {Name: other, T: T{Kind: "string"}}}}
	}
	n := rapid.IntRange(1, 4).Draw(rt, "nfields")
	names := rapid.Permutation(fieldNames).Draw(rt, "names")[:n]
	t := T{Kind: "struct"}
	for _, name := range names {
		kinds := []string{"string", "string", "int", "bool", "pstring", "strs", "strs", "ints"}
		if depth > 0 {
			kinds = append(kinds, "ptr", "ptr", "ptr", "struct", "ptrs", "ptrs", "structs", "iface", "iface", "ifacev", "ifaces", "pptr")
		}
		k := rapid.SampledFrom(kinds).Draw(rt, "kind")
		ft := T{Kind: k}
		switch k {
		case "ptr", "struct", "ptrs", "structs", "iface", "ifacev", "ifaces", "pptr":
			ft.Fields = genT(rt, depth-1).Fields
		}
		t.Fields = append(t.Fields, F{Name: name, T: ft})
	}
	return t
}

func genV(rt *rapid.T, t T) V {
	strs := []string{"", "x", "y", "k1", "a.b", longKey}
	fields := func() []V {
		var out []V
		for _, f := range t.Fields {
			out = append(out, genV(rt, f.T))
		}
		return out
	}
	switch t.Kind {
	case "string":
		return V{S: rapid.SampledFrom(strs).Draw(rt, "s")}
	case "int", "bool":
		return V{I: int64(rapid.IntRange(0, 3).Draw(rt, "i"))}
	case "pstring":
		if rapid.IntRange(0, 3).Draw(rt, "nilp") == 0 {
			return V{Nil: true}
		}
		return V{S: rapid.SampledFrom(strs).Draw(rt, "s")}
	case "struct":
		return V{Fields: fields()}
	case "ptr", "iface", "ifacev", "pptr":
		if rapid.IntRange(0, 3).Draw(rt, "nilptr") == 0 {
			return V{Nil: true}
		}
		return V{Fields: fields()}
	}
	// slices
	n := rapid.IntRange(0, 3).Draw(rt, "len")
	if !chainMode && rapid.IntRange(0, 39).Draw(rt, "longslice") == 0 {
		n = rapid.SampledFrom([]int{17, 33, 70}).Draw(rt, "lenlong")
	}
	if n == 0 && rapid.Bool().Draw(rt, "nilslice") {
		return V{Nil: true}
	}
	v := V{}
	for i := 0; i < n; i++ {
		switch t.Kind {
		case "strs":
			v.Items = append(v.Items, V{S: rapid.SampledFrom(strs).Draw(rt, "s")})
		case "ints":
			v.Items = append(v.Items, V{I: int64(rapid.IntRange(0, 3).Draw(rt, "i"))})
		case "ptrs", "ifaces":
			if rapid.IntRange(0, 4).Draw(rt, "nilelem") == 0 {
				v.Items = append(v.Items, V{Nil: true})
			} else {
				v.Items = append(v.Items, V{Fields: fields()})
			}
		case "structs":
			v.Items = append(v.Items, V{Fields: fields()})
		}
	}
	return v
}

func genCase(rt *rapid.T) *Case {
	if rapid.IntRange(0, 1499).Draw(rt, "longloc") == 0 {
		return &Case{Long: rapid.SampledFrom([]int{1, 50, 5000, 9998, 9999, 10000, 10001, 100000, 2000000}).Draw(rt, "longn"), LongSeg: rapid.SampledFrom([]string{"n", "n", "ns"}).Draw(rt, "longseg"),
			Locator: rapid.SampledFrom([]string{"name", "name", "nope", "n"}).Draw(rt, "longtail")}
	}
	if rapid.IntRange(0, 9).Draw(rt, "exotic") == 0 {
		return &Case{Exotic: 1 + rapid.IntRange(0, len(exotics())-1).Draw(rt, "ex"), Locator: rapid.SampledFrom(ExoticLocators).Draw(rt, "xloc")}
	}
	depth := 3
	if rapid.IntRange(0, 19).Draw(rt, "deep") == 0 {
		depth = rapid.IntRange(6, 14).Draw(rt, "depth") // long chains of nested messages
		chainMode = true
	} else {
		chainMode = false
	}
	t := genT(rt, depth)
	v := genV(rt, t)
	var ps []string
	Paths(t, nil, &ps)
	loc := rapid.SampledFrom(ps).Draw(rt, "loc")
	switch rapid.IntRange(0, 19).Draw(rt, "mut") {
	case 0:
		loc = strings.ToUpper(loc)
	case 1:
		loc = loc + "." + rapid.SampledFrom([]string{"a", "k", "key", "zz", ""}).Draw(rt, "extra")
	case 2:
		if i := strings.LastIndex(loc, "."); i >= 0 {
			loc = loc[:i]
		}
	case 3:
		loc = strings.Replace(loc, ".", "..", 1)
	case 4:
		loc = rapid.SampledFrom([]string{"", ".", "a.", ".a", "nope", "A", "lst", "key", "kéy", "a b"}).Draw(rt, "odd")
	case 5:
		loc = loc + "." + loc
	case 6:
		if i := strings.Index(loc, "."); i >= 0 {
			loc = loc[i+1:]
		}
	}
	c := &Case{T: &t, V: &v, Locator: loc, ByValue: rapid.IntRange(0, 19).Draw(rt, "byValue") == 0}
	if rapid.IntRange(0, 7).Draw(rt, "withprev") == 0 {
		pv := genV(rt, t)
		c.Prev = &pv
	}
	return c
}

func one(c *Case) string {
	st := hx.For("C11")
	f, labels, nt := Check(c)
	if f != "" {
		st.Failed()
		c.Failure, c.Property = f, "C11"
		hx.WriteReplay("C11", c)
		return f
	}
	st.Case(1, labels, nt, c)
	return ""
}

func prop(rt *rapid.T) {
	if f := one(genCase(rt)); f != "" {
		rt.Fatalf("%s", f)
	}
}

func TestC11(t *testing.T) {
	if p := hx.ReplayIn(); p != "" {
		var c Case
		if err := hx.Load(p, &c); err != nil {
			t.Fatal(err)
		}
		if f := one(&c); f != "" {
			t.Fatalf("replay %s: %s", p, f)
		}
		return
	}
	for _, p := range hx.Corpus("C11") {
		var c Case
		if err := hx.Load(p, &c); err != nil {
			t.Fatal(err)
		}
		if f := one(&c); f != "" {
			t.Fatalf("corpus %s: %s", p, f)
		}
		hx.For("C11").Label("corpus-replayed", 1)
	}
	// every exotic value x every exotic locator, exhaustively
	for i := range exotics() {
		for _, loc := range ExoticLocators {
			if f := one(&Case{Exotic: i + 1, Locator: loc}); f != "" {
				t.Fatalf("exotic: %s", f)
			}
		}
	}
	for _, n := range []int{1, 1000, 2000000} {
		if f := one(&Case{Long: n, LongSeg: "n", Locator: "name"}); f != "" {
			t.Fatalf("long locator: %s", f)
		}
	}
	for _, sc := range TwinScenarios {
		for _, loc := range []string{"key", "keys", "other", "inner.key", "sub.key", "subs.key", "sub.keys", "subs.keys"} {
			if f := one(&Case{Twin: sc, Locator: loc}); f != "" {
				t.Fatalf("twin types: %s", f)
			}
		}
	}
	rapid.Check(t, prop)
}

// FuzzC11 feeds the same property from coverage-guided bytes (thorough tier).
func FuzzC11(f *testing.F) {
	f.Add([]byte{0})
	f.Add([]byte("\x01\x02\x03\x04key.keys\x00\xff\x10\x20"))
	f.Fuzz(rapid.MakeFuzz(prop))
}
