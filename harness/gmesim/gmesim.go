// Package gmesim drives grpcgcp.GCPMultiEndpoint over in-memory (bufconn) gRPC servers, one per
// endpoint, and compares routing, the set of open pools and resource release with a model
// (C15, C16). Real grpc-go, real time; every wait is a bounded poll.
package gmesim

import (
	"context"
	"encoding/json"
	"errors"
	"fmt"
	"io"
	"net"
	"os"
	"runtime"
	"sort"
	"strings"
	"sync"
	"sync/atomic"
	"time"
	"verifharness/hx"

	"github.com/GoogleCloudPlatform/grpc-gcp-go/grpcgcp"
	pb "github.com/GoogleCloudPlatform/grpc-gcp-go/grpcgcp/grpc_gcp"
	"github.com/GoogleCloudPlatform/grpc-gcp-go/grpcgcp/multiendpoint"
	hw "github.com/GoogleCloudPlatform/grpc-gcp-go/grpcgcp/test_grpc/helloworld/helloworld"
	"google.golang.org/grpc"
	"google.golang.org/grpc/backoff"
	"google.golang.org/grpc/connectivity"
	"google.golang.org/grpc/credentials/insecure"
	"google.golang.org/grpc/test/bufconn"
)

// ---- in-memory endpoints ------------------------------------------------------------------------

type gsrv struct {
	hw.UnimplementedGreeterServer
	name string
}

func (s *gsrv) SayHello(ctx context.Context, in *hw.HelloRequest) (*hw.HelloReply, error) {
	return &hw.HelloReply{Message: s.name}, nil
}

func (s *gsrv) RepeatHello(st hw.Greeter_RepeatHelloServer) error {
	for {
		if _, err := st.Recv(); err != nil {
			return nil
		}
		if err := st.Send(&hw.HelloReply{Message: s.name}); err != nil {
			return err
		}
	}
}

type gep struct {
	name   string
	lis    *bufconn.Listener
	gs     *grpc.Server
	mu     sync.Mutex
	up     bool
	conns  []net.Conn
	dials  int
	live   int
	closed int64
}

func newGEP(name string) *gep {
	e := &gep{name: name, lis: bufconn.Listen(1 << 16), gs: grpc.NewServer(), up: true}
	hw.RegisterGreeterServer(e.gs, &gsrv{name: name})
	go e.gs.Serve(e.lis)
	return e
}

func (e *gep) dial(ctx context.Context, _ string) (net.Conn, error) {
	e.mu.Lock()
	defer e.mu.Unlock()
	if !e.up {
		return nil, errors.New("endpoint down")
	}
	c, err := e.lis.DialContext(ctx)
	if err == nil {
		c = &trackedConn{Conn: c, ep: e}
		e.conns = append(e.conns, c)
		e.dials++
		e.live++
	}
	return c, err
}

// trackedConn counts live transport connections of an endpoint.
type trackedConn struct {
	net.Conn
	ep   *gep
	once sync.Once
}

func (t *trackedConn) Close() error {
	t.once.Do(func() {
		// the endpoint's mutex may be held by set(): count without it
		atomic.AddInt64(&t.ep.closed, 1)
	})
	return t.Conn.Close()
}

func (e *gep) liveConns() int {
	e.mu.Lock()
	defer e.mu.Unlock()
	return e.live - int(atomic.LoadInt64(&e.closed))
}

func (e *gep) set(up bool) {
	e.mu.Lock()
	defer e.mu.Unlock()
	e.up = up
	if !up {
		for _, c := range e.conns {
			c.Close()
		}
		e.conns = nil
	}
}

// EPNames are the endpoints of the world.
// The last two are single endpoints whose addresses contain a comma (a target may list several addresses): they must not
// be confused with the two endpoints they are spelled like.
var EPNames = []string{"e0", "e1", "e2", "e3", "e0,e1", "e2,e3"}

// MENames are the MultiEndpoint names used by generated options.
var MENames = []string{"d", "r", "w"}

var (
	epOnce sync.Once
	eps    = map[string]*gep{}
)

func endpoints() map[string]*gep {
	epOnce.Do(func() {
		for _, n := range EPNames {
			eps[n] = newGEP(n)
		}
	})
	return eps
}

// ---- cases -----------------------------------------------------------------------------------------

// ME is one MultiEndpoint of an option set.
type ME struct {
	Name int   `json:"name"`                 // index into MENames
	Eps  []int `json:"eps"`                  // indices into EPNames (distinct)
	RMs  int   `json:"recoveryMs,omitempty"` // recovery timeout (applies when the MultiEndpoint is created)
	DMs  int   `json:"delayMs,omitempty"`    // switching delay (applies when the MultiEndpoint is created)
	Dup  int   `json:"dup,omitempty"`        // >0: the endpoint at this position (1-based, mod len) is listed a second time at the end
}

// Options is a generated option set.
type Options struct {
	MEs     []ME `json:"mes"`
	Default int  `json:"default"` // index into MEs
}

// Op is one step.
type Op struct {
	K    string   `json:"k"` // update | down | up | upquick | bad | rpc
	Opts *Options `json:"opts,omitempty"`
	E    int      `json:"e,omitempty"`
	Bad  string   `json:"bad,omitempty"` // nodefault | empty-existing | empty-new | nil-options | dialfail
	Nth  int      `json:"nth,omitempty"` // dialfail: fail the n-th dial of the call (1-based)
	Ctx  int      `json:"ctx,omitempty"` // rpc: 0 no name, 1..3 ME name, 4 unknown name
	Strm bool     `json:"stream,omitempty"`
	Flip int      `json:"flip,omitempty"` // update: >0: endpoint (index+1) whose reachability is toggled right before the call, without settling in between
}

// Case is a complete history.
type Case struct {
	Property   string  `json:"property,omitempty"`
	StartDown  []int   `json:"startDown"`
	BadInit    string  `json:"badInit,omitempty"` // construct with invalid options first (must fail and leave nothing behind)
	MinSize    int     `json:"minSize,omitempty"` // channel pool minSize of the gRPC-GCP config handed to GCPMultiEndpoint (0 = absent)
	InPlace    bool    `json:"inPlace,omitempty"` // the caller keeps one options object and edits it in place between updates
	MaxSize    int     `json:"maxSize,omitempty"`
	UserOpts   int     `json:"userDialOptions,omitempty"` // extra dial options of the caller: 1 default service config selecting pick_first, 2 one with only a retry policy, 3 one with another grpc_gcp config, 4 a user agent
	NoDialFunc bool    `json:"noDialFunc,omitempty"`      // no DialFunc in the options: the library dials itself with the caller\'s options (reduced scenario, see RunDefaultDialer)
	ExtClose   int     `json:"extClose,omitempty"`        // >0: right before Close the application itself closes the connection of one endpoint (the one with this index among the open pools) that it had handed out through its DialFunc
	LateAppend bool    `json:"lateAppend,omitempty"`      // the caller passes its dial options as a slice with spare capacity and appends more options to that slice after the constructor returned
	Stale      int     `json:"staleMonitor,omitempty"`    // >0: reduced scenario RunStaleMonitor; 1-4: remove an endpoint, add it again, the old pool's monitor reports late; 5-8: an update with kept pools whose own state report is held while the endpoint goes down; the value selects the endpoints
	Init       Options `json:"init"`
	Ops        []Op    `json:"ops"`
	Failure    *Fail   `json:"failure,omitempty"`
}

// Fail is an oracle failure.
type Fail struct {
	Prop string `json:"property"`
	Rule string `json:"rule"`
	Step int    `json:"step"`
	Msg  string `json:"message"`
}

func (f *Fail) Error() string {
	return fmt.Sprintf("%s rule %s at step %d: %s", f.Prop, f.Rule, f.Step, f.Msg)
}

type recKey struct{}

type world struct {
	killedConn  map[*grpc.ClientConn]bool // pool connections the application closed itself in mid-history and the object still holds
	killedEp    map[string]bool           // endpoints whose pool was closed that way (as good as down until the pool is replaced)
	realUp      map[string]bool           // reachability of those endpoints
	poisoned    []string                  // targets dialed through the DialFunc of a rejected update
	maxTimerMs  int                       // longest recovery timeout / switching delay of any MultiEndpoint configured in this history
	everNames   map[string]bool
	props       map[string]bool
	labels      map[string]int
	step        int
	gme         *grpcgcp.GCPMultiEndpoint
	client      hw.GreeterClient
	dialed      map[string][]*grpc.ClientConn
	failAt      int
	dialsInCall int
	mes         map[string][]string
	def         string
	up          map[string]bool
	m0          int
	delayed     map[string]bool // MultiEndpoints created with a recovery timeout or switching delay follow with a delay
	callerOpts  *grpcgcp.GCPMultiEndpointOptions
	pendingDups map[string]bool // of the option set built last
	dups        map[string]bool // of the accepted option set
}

type failure struct{ f *Fail }
type abortOther struct{ prop string }

func (w *world) fail(prop, rule, f string, a ...interface{}) {
	if w.props[prop] {
		panic(failure{&Fail{Prop: prop, Rule: rule, Step: w.step, Msg: fmt.Sprintf(f, a...)}})
	}
	panic(abortOther{prop})
}

func (w *world) dialFunc(ctx context.Context, target string, dopts ...grpc.DialOption) (*grpc.ClientConn, error) {
	w.dialsInCall++
	if w.failAt > 0 && w.dialsInCall == w.failAt {
		return nil, errors.New("injected dial failure")
	}
	e := endpoints()[target]
	if e == nil {
		return nil, fmt.Errorf("unknown endpoint %q", target)
	}
	rec := func(ctx context.Context, method string, req, reply interface{}, cc *grpc.ClientConn, invoker grpc.UnaryInvoker, opts ...grpc.CallOption) error {
		if p, ok := ctx.Value(recKey{}).(*string); ok {
			*p = target
		}
		return invoker(ctx, method, req, reply, cc, opts...)
	}
	srec := func(ctx context.Context, desc *grpc.StreamDesc, cc *grpc.ClientConn, method string, streamer grpc.Streamer, opts ...grpc.CallOption) (grpc.ClientStream, error) {
		if p, ok := ctx.Value(recKey{}).(*string); ok {
			*p = target
		}
		return streamer(ctx, desc, cc, method, opts...)
	}
	dopts = append(dopts, grpc.WithContextDialer(e.dial), grpc.WithTransportCredentials(insecure.NewCredentials()),
		grpc.WithChainUnaryInterceptor(rec), grpc.WithChainStreamInterceptor(srec),
		grpc.WithConnectParams(grpc.ConnectParams{Backoff: backoff.Config{BaseDelay: 5 * time.Millisecond, Multiplier: 1, MaxDelay: 5 * time.Millisecond}, MinConnectTimeout: 50 * time.Millisecond}))
	c, err := grpc.Dial("passthrough:///"+target, dopts...)
	if err == nil {
		w.dialed[target] = append(w.dialed[target], c)
	}
	return c, err
}

// poisonDial is a DialFunc that only rejected option sets carry.
func (w *world) poisonDial(ctx context.Context, target string, dopts ...grpc.DialOption) (*grpc.ClientConn, error) {
	w.poisoned = append(w.poisoned, target)
	return nil, fmt.Errorf("the dialer of a rejected update was used for %q", target)
}

// route issues one RPC and returns the pool (endpoint) it entered.
func (w *world) route(name string, expectUp, stream bool) (hit string, panicked interface{}) {
	defer func() { panicked = recover() }()
	ctx := tagCtx(context.Background(), name)
	ctx = context.WithValue(ctx, recKey{}, &hit)
	to := 15 * time.Millisecond
	if expectUp {
		to = 300 * time.Millisecond
	}
	ctx, cancel := context.WithTimeout(ctx, to)
	defer cancel()
	if stream {
		st, err := w.client.RepeatHello(ctx)
		if err == nil {
			if st.Send(&hw.HelloRequest{Name: "x"}) == nil {
				st.Recv()
			}
			st.CloseSend()
			cancel()
			for {
				if _, err := st.Recv(); err != nil || err == io.EOF {
					break
				}
			}
		}
		return
	}
	w.client.SayHello(ctx, &hw.HelloRequest{Name: "x"})
	return
}

func topUp(list []string, up map[string]bool) string {
	for _, e := range list {
		if up[e] {
			return e
		}
	}
	return ""
}

// tagCtx builds the context a description stands for: "" no MultiEndpoint name at all, "n" the name n, "a>b" a context
// tagged with a and then with b (also with the empty name: ">" is a context explicitly tagged with "").
func tagCtx(ctx context.Context, desc string) context.Context {
	if strings.Contains(desc, ">") {
		for _, n := range strings.Split(desc, ">") {
			ctx = grpcgcp.NewMEContext(ctx, n)
		}
		return ctx
	}
	if desc != "" {
		ctx = grpcgcp.NewMEContext(ctx, desc)
	}
	return ctx
}

// ctxOf: the context description that names MultiEndpoint n.
func ctxOf(n string) string {
	if n == "" {
		return ">"
	}
	return n
}

func (w *world) meFor(name string) string {
	// a context description "a>b" stands for NewMEContext(NewMEContext(ctx, "a"), "b"): the innermost (last) name counts
	if i := strings.LastIndex(name, ">"); i >= 0 {
		name = name[i+1:]
	} else if name == "" {
		return w.def // the context names no MultiEndpoint at all (also when some MultiEndpoint is called "")
	}
	if _, ok := w.mes[name]; !ok {
		return w.def
	}
	return name
}

// meName: indices from 100 on name the MultiEndpoint after an endpoint address (names and addresses are different
// name spaces for the library; applications do call a MultiEndpoint after its primary endpoint).
func meName(i int) string {
	if i == 99 {
		return "" // the empty string is a name like any other
	}
	if i >= 100 {
		return EPNames[(i-100)%len(EPNames)]
	}
	return MENames[((i%len(MENames))+len(MENames))%len(MENames)]
}

func (w *world) contexts() []string {
	names := []string{"", "unknown-name"}
	for n := range w.mes {
		names = append(names, n)
	}
	for n := range w.everNames {
		// names of MultiEndpoints that were configured once and removed since: routed like unknown names
		if _, ok := w.mes[n]; !ok {
			names = append(names, n)
		}
	}
	// contexts that were tagged more than once: the last tag counts, also when it is the empty or an unknown name
	var chains []string
	for n := range w.mes {
		chains = append(chains, n+">", n+">unknown-name", "unknown-name>"+n)
		for m := range w.mes {
			if m != n {
				chains = append(chains, n+">"+m)
			}
		}
	}
	sort.Strings(chains)
	if len(chains) > 6 {
		chains = chains[:6]
	}
	names = append(names, ">")
	names = append(names, chains...)
	sort.Strings(names)
	return names
}

func (w *world) open(e string) int {
	n := 0
	for _, c := range w.dialed[e] {
		if c.GetState() != connectivity.Shutdown || w.killedConn[c] {
			n++
		}
	}
	return n
}

// checkRoute compares one routing observation with the model; "" = agrees.
func (w *world) checkRoute(ctxName, got string) string {
	list := w.mes[w.meFor(ctxName)]
	want := topUp(list, w.up)
	if w.dups[w.meFor(ctxName)] && want != "" {
		for _, e := range list {
			if e == got && w.up[e] {
				return ""
			}
		}
		return fmt.Sprintf("context %q entered pool %q, which is not a reachable endpoint of MultiEndpoint %q %v (up: %v)", ctxName, got, w.meFor(ctxName), list, w.upList())
	}
	if want == "" {
		for _, e := range list {
			if e == got {
				return ""
			}
		}
		return fmt.Sprintf("context %q entered pool %q which is not an endpoint of MultiEndpoint %q %v", ctxName, got, w.meFor(ctxName), list)
	}
	if got != want {
		return fmt.Sprintf("context %q entered pool %q, the current endpoint of MultiEndpoint %q %v must be %q (up: %v)", ctxName, got, w.meFor(ctxName), list, want, w.upList())
	}
	return ""
}

func (w *world) upList() []string {
	var l []string
	for _, e := range EPNames {
		if w.up[e] {
			l = append(l, e)
		}
	}
	return l
}

// settle polls until the routing of every context equals the model (bounded at 10 s).
// noteTimers records which MultiEndpoints exist with timers after an accepted option set.
func (w *world) noteTimers(o *grpcgcp.GCPMultiEndpointOptions) {
	if w.delayed == nil {
		w.delayed = map[string]bool{}
	}
	for name := range w.delayed {
		if _, ok := o.MultiEndpoints[name]; !ok {
			delete(w.delayed, name)
		}
	}
	for name, meo := range o.MultiEndpoints {
		if _, known := w.delayed[name]; !known {
			w.delayed[name] = meo.RecoveryTimeout > 0 || meo.SwitchingDelay > 0
			if w.delayed[name] {
				w.labels["multiendpoint-with-timers"]++
			}
		}
	}
}

func (w *world) settle(what, prop string) {
	if len(w.poisoned) > 0 {
		w.fail("C16", "rejected-dialer", "%s: the DialFunc that came with a rejected update was used afterwards (for %v): the rejected call changed how the object dials", what, w.poisoned)
	}
	deadline := time.Now().Add(10 * time.Second)
	stream := false
	for {
		bad := ""
		for _, n := range w.contexts() {
			want := topUp(w.mes[w.meFor(n)], w.up)
			got, p := w.route(n, want != "", stream)
			if p != nil {
				w.fail("C16", "rpc-panic", "%s: RPC with context %q panicked: %v", what, n, p)
			}
			if got != "" && w.open(got) == 0 {
				bad = fmt.Sprintf("context %q entered the pool of %q, which is closed", n, got)
				if time.Now().After(deadline) {
					w.fail("C16", "closed-pool", "%s: %s", what, bad)
				}
				break
			}
			if bad = w.checkRoute(n, got); bad != "" {
				break
			}
		}
		if bad == "" {
			if !stream {
				stream = true // one more round with streams
				w.labels["settled-unary"]++
				continue
			}
			w.labels["settled-stream"]++
			return
		}
		if time.Now().After(deadline) {
			w.fail(prop, "routing", "%s: routing did not follow within 10s: %s", what, bad)
		}
		time.Sleep(time.Millisecond)
	}
}

func mentioned(mes map[string][]string) map[string]bool {
	m := map[string]bool{}
	for _, l := range mes {
		for _, e := range l {
			m[e] = true
		}
	}
	return m
}

func monitors() int {
	buf := make([]byte, 1<<20)
	n := runtime.Stack(buf, true)
	return strings.Count(string(buf[:n]), "(*monitoredConn).monitor(")
}

func (w *world) checkPools(what string) {
	ment := mentioned(w.mes)
	for e, conns := range w.dialed {
		open := w.open(e)
		want := 0
		if ment[e] {
			want = 1
		}
		if open != want {
			w.fail("C15", "pool-set", "%s: endpoint %s has %d open pools, want %d (dialed %d times)", what, e, open, want, len(conns))
		}
	}
	for e := range ment {
		if len(w.dialed[e]) == 0 {
			w.fail("C15", "pool-set", "%s: endpoint %s is mentioned but was never dialed", what, e)
		}
	}
	for dl := time.Now().Add(5 * time.Second); ; time.Sleep(time.Millisecond) {
		m, p := monitors()-w.m0, len(ment)
		if m == p {
			break
		}
		if time.Now().After(dl) {
			w.fail("C15", "monitors", "%s: %d monitor goroutines for %d open pools after 5s", what, m, p)
		}
	}
}

// buildFor returns the options to pass: a fresh object, or (in-place mode) the caller's single object
// with its map edited in place.
func (o *Options) buildFor(w *world, inPlace bool) (*grpcgcp.GCPMultiEndpointOptions, map[string][]string, string) {
	fresh, model, def := o.build(w)
	if !inPlace {
		return fresh, model, def
	}
	if w.callerOpts == nil {
		w.callerOpts = fresh
		return fresh, model, def
	}
	w.labels["options-object-edited-in-place"]++
	co := w.callerOpts
	for k := range co.MultiEndpoints {
		if _, ok := fresh.MultiEndpoints[k]; !ok {
			delete(co.MultiEndpoints, k)
		}
	}
	for k, v := range fresh.MultiEndpoints {
		if old, ok := co.MultiEndpoints[k]; ok && old != nil {
			// the MultiEndpointOptions object is reused as well, and where it fits even the endpoint slice's backing array
			if len(v.Endpoints) <= cap(old.Endpoints) {
				old.Endpoints = old.Endpoints[:len(v.Endpoints)]
				copy(old.Endpoints, v.Endpoints)
			} else {
				old.Endpoints = v.Endpoints
			}
		} else {
			co.MultiEndpoints[k] = v
		}
	}
	co.Default = fresh.Default
	return co, model, def
}

func (o *Options) build(w *world) (*grpcgcp.GCPMultiEndpointOptions, map[string][]string, string) {
	mes := map[string]*multiendpoint.MultiEndpointOptions{}
	model := map[string][]string{}
	dups := map[string]bool{}
	w.pendingDups = dups
	for _, me := range o.MEs {
		name := meName(me.Name)
		if w.everNames == nil {
			w.everNames = map[string]bool{}
		}
		w.everNames[name] = true
		if _, dup := mes[name]; dup {
			continue
		}
		var l []string
		seen := map[string]bool{}
		for _, e := range me.Eps {
			n := EPNames[((e%len(EPNames))+len(EPNames))%len(EPNames)]
			if !seen[n] {
				seen[n] = true
				l = append(l, n)
			}
		}
		if len(l) == 0 {
			l = []string{EPNames[0]}
		}
		given := append([]string{}, l...)
		if me.Dup > 0 {
			// a list naming an endpoint twice is accepted by the library (the priority of the duplicate is not
			// defined by the statement): the model only demands an up member then
			given = append(given, l[(me.Dup-1)%len(l)])
			w.labels["endpoint-listed-twice"]++ // counts where it is listed first: the model list is l
		}
		if me.RMs > w.maxTimerMs {
			w.maxTimerMs = me.RMs
		}
		if me.DMs > w.maxTimerMs {
			w.maxTimerMs = me.DMs
		}
		mes[name] = &multiendpoint.MultiEndpointOptions{Endpoints: given, RecoveryTimeout: time.Duration(me.RMs) * time.Millisecond, SwitchingDelay: time.Duration(me.DMs) * time.Millisecond}
		model[name] = l
	}
	if len(mes) == 0 {
		mes["d"] = &multiendpoint.MultiEndpointOptions{Endpoints: []string{"e0"}}
		model["d"] = []string{"e0"}
	}
	var names []string
	for n := range model {
		names = append(names, n)
	}
	sort.Strings(names)
	def := names[((o.Default%len(names))+len(names))%len(names)]
	return &grpcgcp.GCPMultiEndpointOptions{MultiEndpoints: mes, Default: def, DialFunc: w.dialFunc}, model, def
}

// corrupt turns valid options into invalid ones of the given kind; ok=false if not applicable.
func (w *world) corrupt(o *grpcgcp.GCPMultiEndpointOptions, kind string, nth int) bool {
	var names []string
	for n := range o.MultiEndpoints {
		names = append(names, n)
	}
	sort.Strings(names)
	switch kind {
	case "nodefault":
		o.Default = "missing-name"
	case "empty-existing":
		for _, n := range names {
			if _, ok := w.mes[n]; ok {
				o.MultiEndpoints[n] = &multiendpoint.MultiEndpointOptions{}
				return true
			}
		}
		return false
	case "empty-new":
		for _, n := range names {
			if _, ok := w.mes[n]; !ok {
				o.MultiEndpoints[n] = &multiendpoint.MultiEndpointOptions{Endpoints: []string{}}
				return true
			}
		}
		return false
	case "nil-options":
		o.MultiEndpoints[names[nth%len(names)]] = nil
	case "nil-pointer":
		// the caller passes no options object at all (handled by the op: o = nil)
	case "dialfail":
		need := 0
		for e := range mentionedOpts(o) {
			if w.open(e) == 0 {
				need++
			}
		}
		if need == 0 {
			return false
		}
		w.failAt = 1 + nth%need
	}
	return true
}

func mentionedOpts(o *grpcgcp.GCPMultiEndpointOptions) map[string]bool {
	m := map[string]bool{}
	for _, meo := range o.MultiEndpoints {
		if meo != nil {
			for _, e := range meo.Endpoints {
				m[e] = true
			}
		}
	}
	return m
}

// Result of a run.
type Result struct {
	Fail    *Fail
	Labels  map[string]int
	Steps   int
	Aborted string
}

func waitBaseline(g0, m0 int) bool {
	for dl := time.Now().Add(5 * time.Second); runtime.NumGoroutine() > g0 || monitors() > m0; {
		if time.Now().After(dl) {
			return false
		}
		time.Sleep(time.Millisecond)
	}
	return true
}

// Run executes one case.
// Timers of the MultiEndpoints (recovery windows, delayed switches) go through the package clock hook: every timer is
// tagged with the case that armed it, and a callback that runs after the Close() of that case's object has returned is
// counted ("no goroutine started by the object outlives it").
var (
	timerCase   atomic.Int64 // id of the running case
	closedCase  atomic.Int64 // id of the last case whose Close() has returned
	lateTimers  atomic.Int64 // callbacks that ran after that
	knownOnce   sync.Map
	clockHooked sync.Once
)

func hookClock() {
	clockHooked.Do(func() {
		multiendpoint.VerifSetClock(time.Now, func(d time.Duration, f func()) multiendpoint.VerifTimer {
			id := timerCase.Load()
			return time.AfterFunc(d, func() {
				if id > 0 && closedCase.Load() >= id {
					lateTimers.Add(1)
				}
				f()
			})
		})
	})
}

// knownFinding returns the text of the open finding with that id (known_findings.json), or "".
func knownFinding(id string) string {
	b, err := os.ReadFile(os.Getenv("VERIF_KNOWN"))
	if err != nil {
		return ""
	}
	var k struct {
		Findings []struct{ Property, Status, ID, What string }
	}
	if json.Unmarshal(b, &k) != nil {
		return ""
	}
	for _, x := range k.Findings {
		if x.ID == id && x.Status == "open" {
			return x.What
		}
	}
	return ""
}

func Run(c *Case, props map[string]bool) (res Result) {
	hookClock()
	caseID := timerCase.Add(1)
	if c.Stale > 0 {
		return RunStaleMonitor(c, props)
	}
	if c.NoDialFunc {
		return RunDefaultDialer(c, props)
	}
	w := &world{props: props, labels: map[string]int{}, dialed: map[string][]*grpc.ClientConn{}, up: map[string]bool{}, mes: map[string][]string{}}
	res.Labels = w.labels
	all := endpoints()
	for _, n := range EPNames {
		all[n].set(true)
		w.up[n] = true
	}
	for _, i := range c.StartDown {
		n := EPNames[((i%len(EPNames))+len(EPNames))%len(EPNames)]
		w.up[n] = false
		all[n].set(false)
	}
	// let goroutines of earlier cases run off before taking the baseline
	runtime.Gosched()
	g0, m0 := runtime.NumGoroutine(), monitors()
	w.m0 = m0
	closed := false
	defer func() {
		if w.gme != nil && !closed {
			func() {
				defer func() { recover() }()
				w.gme.Close()
			}()
		}
		for _, conns := range w.dialed {
			for _, cc := range conns {
				cc.Close() // whatever the library left open must not leak into the next case
			}
		}
		waitBaseline(g0, m0)
		if r := recover(); r != nil {
			switch x := r.(type) {
			case failure:
				res.Fail = x.f
			case abortOther:
				res.Aborted = x.prop
			default:
				res.Fail = &Fail{Prop: "C16", Rule: "panic", Step: w.step, Msg: fmt.Sprint(r)}
				if !props["C16"] {
					res.Fail.Prop = "C15"
				}
			}
		}
	}()

	w.step = -1
	if c.BadInit != "" {
		o, _, _ := c.Init.build(w)
		w.failAt, w.dialsInCall = 0, 0
		if w.corruptInit(o, c.BadInit) {
			if c.BadInit == "nil-pointer" {
				o = nil
			}
			gme, err := grpcgcp.NewGCPMultiEndpoint(o)
			w.failAt = 0
			if err == nil {
				if gme != nil {
					gme.Close()
				}
				w.fail("C16", "bad-construct-accepted", "NewGCPMultiEndpoint accepted invalid options (%s)", c.BadInit)
			}
			for e, conns := range w.dialed {
				for _, cc := range conns {
					if cc.GetState() != connectivity.Shutdown {
						w.fail("C16", "bad-construct-leak", "failed construction (%s) left the pool of %s open", c.BadInit, e)
					}
				}
			}
			if !waitBaseline(g0, m0) {
				w.fail("C16", "bad-construct-leak", "failed construction (%s) left goroutines behind: %d, before %d (monitors %d)", c.BadInit, runtime.NumGoroutine(), g0, monitors()-m0)
			}
			w.labels["failed-construction-"+c.BadInit]++
			w.dialed = map[string][]*grpc.ClientConn{}
		}
	}
	o, model, def := c.Init.buildFor(w, c.InPlace)
	w.failAt, w.dialsInCall = 0, 0
	live0s := map[string]int{}
	for n, e := range all {
		live0s[n] = e.liveConns()
	}
	if c.MinSize > 0 || c.MaxSize > 0 {
		o.GRPCgcpConfig = &pb.ApiConfig{ChannelPool: &pb.ChannelPoolConfig{MinSize: uint32(c.MinSize), MaxSize: uint32(c.MaxSize)}}
	}
	callerOpts := append(make([]grpc.DialOption, 0, 16), userDialOptions(c.UserOpts)...)
	gme, err := grpcgcp.NewGCPMultiEndpoint(o, callerOpts...)
	if c.LateAppend {
		// the slice is the caller's: appending to it later must not change what the object dials new pools with
		_ = append(callerOpts, grpc.WithUserAgent("late-1"), grpc.WithDefaultServiceConfig(`{"loadBalancingConfig":[{"pick_first":{}}]}`), grpc.WithUserAgent("late-2"),
			grpc.WithUserAgent("late-3"), grpc.WithUserAgent("late-4"), grpc.WithUserAgent("late-5"))
		w.labels["caller-appends-to-its-options-slice-later"]++
	}
	if c.UserOpts != 0 {
		w.labels["caller-dial-options"]++
	}
	if err != nil {
		w.fail("C15", "construct", "NewGCPMultiEndpoint rejected valid options: %v", err)
	}
	w.gme, w.client = gme, hw.NewGreeterClient(gme)
	w.mes, w.def = model, def
	w.dups = w.pendingDups
	w.noteTimers(o)
	w.settle("create", "C15")
	w.checkPools("create")
	// C17: every pool opens max(1, minSize) transport connections (counted at the in-memory dialer)
	checkMin := func(what string, eps map[string]bool, base map[string]int) {
		want := c.MinSize
		if want < 1 {
			want = 1
		}
		for e := range eps {
			if !w.up[e] {
				continue
			}
			ep := all[e]
			live0 := base[e]
			// at least max(1,minSize) connections; grpc-go may replace a still connecting subchannel when the
			// balancer pushes the (same) address list right after creating it, and does not always close the
			// abandoned transport promptly, so up to one extra connection per channel is tolerated
			stable := 0
			for dl := time.Now().Add(5 * time.Second); stable < 5; time.Sleep(time.Millisecond) {
				if n := ep.liveConns() - live0; n >= want && n <= 2*want {
					stable++
				} else {
					stable = 0
					if time.Now().After(dl) {
						w.fail("C17", "gme-min-size", "pool of %s holds %d live transport connections 5s after %s; effective minSize is %d (configured %d), expected %d..%d", e, n, what, want, c.MinSize, want, 2*want)
					}
				}
			}
			w.labels["pool-transport-connections-checked"]++
		}
	}
	checkMin("construction", mentioned(model), live0s)
	if len(model) >= 2 {
		w.labels["several-multiendpoints"]++
	}

	for si := range c.Ops {
		op := &c.Ops[si]
		w.step = si
		res.Steps++
		switch op.K {
		case "update":
			if op.Opts == nil {
				continue
			}
			o, model, def := op.Opts.buildFor(w, c.InPlace)
			before := map[string]int{}
			for e, l := range w.dialed {
				before[e] = len(l)
			}
			keptOpen, readyBefore := map[string]bool{}, map[string]bool{}
			for e := range mentioned(model) {
				if w.open(e) == 1 {
					keptOpen[e] = true
					readyBefore[e] = w.dialed[e][len(w.dialed[e])-1].GetState() == connectivity.Ready
				}
			}
			oldMent := mentioned(w.mes)
			w.failAt, w.dialsInCall = 0, 0
			if op.Flip > 0 {
				// connectivity notifications race with the update
				e := EPNames[(op.Flip-1)%len(EPNames)]
				if w.killedEp[e] {
					w.realUp[e] = !w.realUp[e]
					all[e].set(w.realUp[e])
				} else {
					w.up[e] = !w.up[e]
					all[e].set(w.up[e])
				}
				delete(readyBefore, e)
				w.labels["fault-right-before-update"]++
				if w.up[e] {
					time.Sleep(time.Duration(op.Nth%4) * 500 * time.Microsecond) // let the reconnect get under way
				}
			}
			liveBefore := map[string]int{}
			for n, e := range all {
				liveBefore[n] = e.liveConns()
			}
			if w.step%2 == 1 {
				o.DialFunc = nil // the dialer is given at construction; an update need not repeat it
				w.labels["update-without-dialfunc"]++
			}
			err := gme.UpdateMultiEndpoints(o)
			if len(w.poisoned) > 0 {
				w.fail("C16", "rejected-dialer", "update: the DialFunc that came with an earlier, rejected update was used (for %v): the rejected call changed how the object dials (this update returned %v)", w.poisoned, err)
			}
			if err != nil {
				w.fail("C15", "update-rejected", "valid update rejected: %v", err)
			}
			if w.props["C17"] {
				// pools dialed by this update run with the configuration given at construction
				fresh := map[string]bool{}
				for e := range mentioned(model) {
					if len(w.dialed[e]) > before[e] && liveBefore[e] == 0 {
						fresh[e] = true
					}
				}
				if len(fresh) > 0 {
					w.labels["pool-added-by-update-checked"]++
					checkMin("the update that added it", fresh, liveBefore)
				}
			}
			newDelayOnly := map[string]bool{} // created by this update, with a switching delay and no recovery timeout
			for name, meo := range o.MultiEndpoints {
				if _, existed := w.mes[name]; !existed && meo.RecoveryTimeout <= 0 && meo.SwitchingDelay > 0 {
					newDelayOnly[name] = true
				}
			}
			for e := range w.killedEp {
				if !mentioned(model)[e] {
					// the update drops the endpoint: the dead pool is let go (its Close() fails, which is only logged), a later
					// update that names the endpoint again dials a fresh pool
					delete(w.killedEp, e)
					for _, c0 := range w.dialed[e] {
						delete(w.killedConn, c0)
					}
					w.up[e] = w.realUp[e]
					w.labels["dead-pool-dropped-by-an-update"]++
				}
			}
			w.mes, w.def = model, def
			w.dups = w.pendingDups
			w.noteTimers(o)
			// kept pools were not re-dialed
			for e := range keptOpen {
				if len(w.dialed[e]) != before[e] {
					w.fail("C15", "redial", "update: endpoint %s stayed mentioned but was dialed again", e)
				}
				w.labels["pool-kept"]++
			}
			for e := range oldMent {
				if !mentioned(model)[e] {
					w.labels["pool-removed"]++
				}
			}
			// MultiEndpoints whose top up endpoint's pool was kept route correctly at once
			for n, l := range model {
				t := topUp(l, w.up)
				// (a MultiEndpoint with timers may lag behind on purpose - except one that this very call created with a switching
				// delay only: it has no history, so what it hears first about pools that were READY all along is their state)
				if newDelayOnly[n] {
					for _, e := range l {
						if !keptOpen[e] || !readyBefore[e] || w.dialed[e][len(w.dialed[e])-1].GetState() != connectivity.Ready {
							delete(newDelayOnly, n)
							break
						}
					}
					if newDelayOnly[n] {
						w.labels["new-multiendpoint-with-switching-delay-checked-at-once"]++
					}
				}
				if t == "" || op.Flip > 0 || (w.delayed[n] && !newDelayOnly[n]) || w.dups[n] || !keptOpen[t] || !readyBefore[t] || w.dialed[t][len(w.dialed[t])-1].GetState() != connectivity.Ready {
					continue
				}
				// an unreachable endpoint of higher priority whose pool has not noticed yet still counts as connected for the
				// library ("reflects the connectivity of the kept pools"): nothing to demand then
				stale := false
				for _, e := range l {
					if e == t {
						break
					}
					if readyBefore[e] || (len(w.dialed[e]) > 0 && w.dialed[e][len(w.dialed[e])-1].GetState() == connectivity.Ready) {
						stale = true
					}
				}
				if stale {
					w.labels["immediate-routing-not-checked-stale-pool-state"]++
					continue
				}
				got, p := w.route(ctxOf(n), true, false)
				if p != nil {
					w.fail("C16", "rpc-panic", "update: RPC on %q panicked: %v", n, p)
				}
				if got != t {
					w.fail("C15", "immediate", "update: right after the call MultiEndpoint %q %v routes to %q although the pool of %q was kept and is READY", n, l, got, t)
				}
				w.labels["immediate-routing-checked"]++
			}
			w.settle("update", "C15")
			w.checkPools("update")
			w.labels["update"]++
		case "extclose":
			// the application closes the connection of one pool itself (it got it through its DialFunc). The object still
			// holds that pool: the endpoint is as good as down until an update drops it and a later one dials it again
			e := EPNames[((op.E%len(EPNames))+len(EPNames))%len(EPNames)]
			l := w.dialed[e]
			if len(l) == 0 || l[len(l)-1].GetState() == connectivity.Shutdown || w.killedEp[e] || !mentioned(w.mes)[e] {
				continue
			}
			if w.killedConn == nil {
				w.killedConn, w.killedEp, w.realUp = map[*grpc.ClientConn]bool{}, map[string]bool{}, map[string]bool{}
			}
			c0 := l[len(l)-1]
			w.killedConn[c0], w.killedEp[e], w.realUp[e] = true, true, w.up[e]
			w.up[e] = false
			c0.Close()
			w.settle(fmt.Sprintf("application closed the pool of %s", e), "C15")
			w.labels["pool-closed-by-the-application-in-mid-history"]++
		case "upquick":
			// the endpoint becomes reachable and the history goes on as soon as its pool is READY (plus Nth ms), without
			// waiting for routing to follow: a delayed switch to it is still pending when the next operation arrives
			e := EPNames[((op.E%len(EPNames))+len(EPNames))%len(EPNames)]
			if w.up[e] || w.killedEp[e] {
				continue
			}
			w.up[e] = true
			all[e].set(true)
			deadline := time.Now().Add(300 * time.Millisecond)
			for time.Now().Before(deadline) {
				if l := w.dialed[e]; len(l) == 0 || l[len(l)-1].GetState() == connectivity.Ready {
					break
				}
				time.Sleep(200 * time.Microsecond)
			}
			time.Sleep(time.Duration(op.Nth)*time.Millisecond + 300*time.Microsecond)
			w.labels["endpoint-up-without-settling"]++
		case "down", "up":
			e := EPNames[((op.E%len(EPNames))+len(EPNames))%len(EPNames)]
			wantUp := op.K == "up"
			if w.killedEp[e] {
				// the endpoint's pool was closed by the application: reachability changes nothing until the pool is replaced
				w.realUp[e] = wantUp
				all[e].set(wantUp)
				continue
			}
			if w.up[e] == wantUp {
				continue
			}
			moved := false
			for _, l := range w.mes {
				if topUp(l, w.up) != "" {
					b := topUp(l, w.up)
					w.up[e] = wantUp
					if topUp(l, w.up) != b {
						moved = true
					}
					w.up[e] = !wantUp
				}
			}
			w.up[e] = wantUp
			all[e].set(wantUp)
			w.settle(fmt.Sprintf("%s(%s)", op.K, e), "C15")
			w.labels["fault"]++
			if moved {
				w.labels["fault-moves-routing"]++
			}
		case "rpc":
			names := w.contexts()
			n := names[((op.Ctx%len(names))+len(names))%len(names)]
			want := topUp(w.mes[w.meFor(n)], w.up)
			got, p := w.route(n, want != "", op.Strm)
			if p != nil {
				w.fail("C16", "rpc-panic", "RPC with context %q panicked: %v", n, p)
			}
			if bad := w.checkRoute(n, got); bad != "" {
				w.labels["transient-routing-mismatch"]++
				w.settle("rpc", "C15")
			}
			w.labels["rpc"]++
		case "bad":
			if op.Opts == nil {
				continue
			}
			o, _, _ := op.Opts.build(w)
			w.failAt, w.dialsInCall = 0, 0
			if !w.corrupt(o, op.Bad, op.Nth) {
				w.labels["bad-update-not-applicable"]++
				continue
			}
			openBefore := map[string]bool{}
			for e := range w.dialed {
				openBefore[e] = w.open(e) > 0
			}
			if op.Bad == "nil-pointer" {
				o = nil
			} else if op.Nth%2 == 1 && op.Bad != "dialfail" {
				// the rejected options come with a dialer of their own (the object dials with the one it was built with; a
				// rejected update changes nothing, so this one must never be called)
				o.DialFunc = w.poisonDial
				w.labels["rejected-update-carries-another-dialer"]++
			}
			err := gme.UpdateMultiEndpoints(o)
			w.failAt = 0
			if err == nil {
				w.fail("C16", "bad-update-accepted", "invalid update (%s) accepted", op.Bad)
			}
			for e, was := range openBefore {
				if was && w.open(e) == 0 {
					w.fail("C16", "bad-update-closed-pool", "rejected update (%s) closed the pool of %s", op.Bad, e)
				}
			}
			// routing exactly as before: first observation immediately, then the usual bounded settling
			for _, n := range w.contexts() {
				want := topUp(w.mes[w.meFor(n)], w.up)
				got, p := w.route(n, want != "", false)
				if p != nil {
					w.fail("C16", "rpc-panic", "after rejected update (%s): RPC with context %q panicked: %v", op.Bad, n, p)
				}
				if bad := w.checkRoute(n, got); bad != "" {
					// pool connectivity changes asynchronously: only a mismatch that persists is a violation (settle below)
					w.labels["transient-routing-mismatch-after-rejected-update"]++
				} else {
					w.labels["routing-unchanged-right-after-rejected-update"]++
				}
			}
			w.settle("bad-update-"+op.Bad, "C16")
			// pools dialed by the rejected update must not stay open
			ment := mentioned(w.mes)
			for e := range w.dialed {
				want := 0
				if ment[e] {
					want = 1
				}
				if got := w.open(e); got != want {
					w.fail("C16", "bad-update-pools", "after rejected update (%s): endpoint %s has %d open pools, want %d", op.Bad, e, got, want)
				}
			}
			w.labels["bad-update-"+op.Bad]++
			if len(w.mes) >= 1 && len(ment) >= 2 {
				w.labels["bad-update-with-several-pools"]++
			}
		}
	}
	w.step = len(c.Ops)
	if w.maxTimerMs > 0 {
		// timers armed during the history (delayed switches, recovery windows) fire now: whatever they do, calls are still
		// routed by the configuration in force and nothing panics or enters a closed pool
		time.Sleep(time.Duration(w.maxTimerMs+3) * time.Millisecond)
		w.settle("pending timers fired", "C15")
		w.labels["closing-round-after-the-timers"]++
	}
	extClosed := false
	if c.ExtClose > 0 {
		var open []string
		for _, e := range EPNames {
			if w.open(e) == 1 {
				open = append(open, e)
			}
		}
		if len(open) > 0 {
			e := open[(c.ExtClose-1)%len(open)]
			for _, cc := range w.dialed[e] {
				if cc.GetState() != connectivity.Shutdown {
					cc.Close()
				}
			}
			extClosed = true
			w.labels["connection-closed-by-the-application-before-Close"]++
		}
	}
	if len(w.killedEp) > 0 {
		extClosed = true
	}
	if err := gme.Close(); err != nil && !extClosed {
		// a ClientConn's Close only fails when it was closed before: a pool the object still held was closed already
		w.fail("C16", "close-error", "Close of a healthy object returned %v: it still held a pool that had been closed before", err)
	}
	closed = true
	if len(c.Ops)%3 == 0 {
		// a second Close finds every pool closed: it may report that, it must not panic or hang
		if err := gme.Close(); err != nil {
			if err.Error() == "" {
				w.fail("C16", "close-twice", "second Close returned an error with an empty text")
			}
			w.labels["second-close-reports-errors"]++
		}
		w.labels["closed-twice"]++
	}
	if len(c.Ops)%2 == 0 {
		// an update that arrives after Close (a configuration watcher that has not noticed yet) is refused and
		// leaves nothing behind
		lo, _, _ := c.Init.build(w)
		if err := gme.UpdateMultiEndpoints(lo); err == nil {
			w.fail("C16", "update-after-close", "UpdateMultiEndpoints on a closed GCPMultiEndpoint returned nil")
		}
		w.labels["update-after-close"]++
	}
	for e, conns := range w.dialed {
		for _, cc := range conns {
			if cc.GetState() != connectivity.Shutdown {
				w.fail("C16", "close-leak", "Close left a pool of %s open", e)
			}
		}
	}
	if !waitBaseline(g0, m0) {
		w.fail("C16", "close-goroutines", "goroutines after Close: %d, before construction: %d (monitors still running: %d)", runtime.NumGoroutine(), g0, monitors()-m0)
	}
	// timers armed before or by Close() (a pool that reports SHUTDOWN starts a recovery window) fire now
	lateTimers.Store(0)
	closedCase.Store(caseID)
	if w.maxTimerMs > 0 && props["C16"] {
		time.Sleep(time.Duration(w.maxTimerMs+3) * time.Millisecond)
		if n := lateTimers.Swap(0); n > 0 {
			w.labels["timer-callbacks-after-close"]++
			if k := knownFinding("multiendpoint-timers-outlive-close"); k != "" {
				if _, done := knownOnce.LoadOrStore(k, true); !done {
					fmt.Printf("KNOWN-FINDING: property=C16 %s\n", k)
				}
				w.labels["case-ends-in-a-known-finding"]++
			} else {
				w.fail("C16", "close-timers", "%d timer callback(s) of the object's MultiEndpoints ran after Close() had returned (up to %d ms later): Close stops the monitors, not the recovery and switching timers", n, w.maxTimerMs)
			}
		}
	}
	w.labels["closed"]++
	return
}

func (w *world) corruptInit(o *grpcgcp.GCPMultiEndpointOptions, kind string) bool {
	var names []string
	for n := range o.MultiEndpoints {
		names = append(names, n)
	}
	sort.Strings(names)
	switch kind {
	case "nodefault":
		o.Default = "missing-name"
	case "empty-new":
		o.MultiEndpoints[names[0]] = &multiendpoint.MultiEndpointOptions{}
	case "nil-options":
		o.MultiEndpoints[names[len(names)-1]] = nil
	case "nil-pointer":
	case "dialfail":
		w.failAt = len(mentionedOpts(o)) // the last dial fails: the earlier ones must be rolled back
	case "dialfail-first":
		w.failAt = 1
	default:
		return false
	}
	return true
}

// Probe issues one unary RPC with the given MultiEndpoint name ("" = none) and returns the endpoint whose
// pool it entered (pools must have been dialed with Dial).
func Probe(gme *grpcgcp.GCPMultiEndpoint, name string, timeout time.Duration) (hit string) {
	defer func() { recover() }()
	ctx := tagCtx(context.Background(), name)
	ctx = context.WithValue(ctx, recKey{}, &hit)
	ctx, cancel := context.WithTimeout(ctx, timeout)
	defer cancel()
	hw.NewGreeterClient(gme).SayHello(ctx, &hw.HelloRequest{Name: "probe"})
	return
}

// Dial connects to the in-memory endpoint `target` (for other engines).
func Dial(ctx context.Context, target string, dopts ...grpc.DialOption) (*grpc.ClientConn, error) {
	e := endpoints()[target]
	if e == nil {
		return nil, fmt.Errorf("unknown endpoint %q", target)
	}
	rec := func(ctx context.Context, method string, req, reply interface{}, cc *grpc.ClientConn, invoker grpc.UnaryInvoker, opts ...grpc.CallOption) error {
		if p, ok := ctx.Value(recKey{}).(*string); ok {
			*p = target
		}
		return invoker(ctx, method, req, reply, cc, opts...)
	}
	dopts = append(dopts, grpc.WithChainUnaryInterceptor(rec), grpc.WithContextDialer(e.dial), grpc.WithTransportCredentials(insecure.NewCredentials()),
		grpc.WithConnectParams(grpc.ConnectParams{Backoff: backoff.Config{BaseDelay: 2 * time.Millisecond, Multiplier: 1, MaxDelay: 2 * time.Millisecond}, MinConnectTimeout: 50 * time.Millisecond}))
	return grpc.Dial("passthrough:///"+target, dopts...)
}

// Live is the number of open transport connections of an in-memory endpoint.
func Live(target string) int {
	if e := endpoints()[target]; e != nil {
		return e.liveConns()
	}
	return 0
}

// SetUp makes an in-memory endpoint reachable or not (closing its live connections).
func SetUp(target string, up bool) {
	if e := endpoints()[target]; e != nil {
		e.set(up)
	}
}

// userDialOptions are dial options a caller may pass next to the GCPMultiEndpoint options. The library documents
// that the gRPC-GCP configuration it is given applies to every pool, so a default service config among them
// must not replace it.
func userDialOptions(k int) []grpc.DialOption {
	switch k {
	case 1:
		return []grpc.DialOption{grpc.WithDefaultServiceConfig(`{"loadBalancingConfig":[{"pick_first":{}}]}`)}
	case 2:
		return []grpc.DialOption{grpc.WithDefaultServiceConfig(`{"methodConfig":[{"name":[{"service":"helloworld.Greeter"}],"retryPolicy":{"maxAttempts":2,"initialBackoff":"0.01s","maxBackoff":"0.01s","backoffMultiplier":1,"retryableStatusCodes":["ABORTED"]}}]}`)}
	case 3:
		return []grpc.DialOption{grpc.WithDefaultServiceConfig(`{"loadBalancingConfig":[{"grpc_gcp":{"channelPool":{"minSize":1,"maxSize":1}}}]}`), grpc.WithUserAgent("caller")}
	case 4:
		return []grpc.DialOption{grpc.WithUserAgent("caller")}
	}
	return nil
}

// RunDefaultDialer is the reduced scenario for a GCPMultiEndpoint built WITHOUT a DialFunc (the library then
// dials the endpoint name itself with the caller's options) and through the deprecated constructor alias.
// The caller's options carry one dialer for all endpoints; the pool an RPC entered is read from the
// ClientConn's target. The pools themselves are not visible here, so the oracle is: every context routes to
// the top reachable endpoint of its MultiEndpoint within the bound (C15), transport connections exist only to
// mentioned endpoints once things are quiet, and after Close nothing is left (C16).
func RunDefaultDialer(c *Case, props map[string]bool) (res Result) {
	w := &world{props: props, labels: map[string]int{}, dialed: map[string][]*grpc.ClientConn{}, up: map[string]bool{}, mes: map[string][]string{}}
	res.Labels = w.labels
	all := endpoints()
	for _, n := range EPNames {
		all[n].set(true)
		w.up[n] = true
	}
	for _, i := range c.StartDown {
		n := EPNames[((i%len(EPNames))+len(EPNames))%len(EPNames)]
		w.up[n] = false
		all[n].set(false)
	}
	runtime.Gosched()
	g0, m0 := runtime.NumGoroutine(), monitors()
	var gme *grpcgcp.GCPMultiEndpoint
	closed := false
	defer func() {
		if gme != nil && !closed {
			func() {
				defer func() { recover() }()
				gme.Close()
			}()
		}
		waitBaseline(g0, m0)
		if r := recover(); r != nil {
			switch x := r.(type) {
			case failure:
				res.Fail = x.f
			case abortOther:
				res.Aborted = x.prop
			default:
				res.Fail = &Fail{Prop: "C15", Rule: "panic", Step: w.step, Msg: fmt.Sprint(r)}
				if !props["C15"] {
					res.Fail.Prop = "C16"
				}
			}
		}
	}()
	rec := func(ctx context.Context, method string, req, reply interface{}, cc *grpc.ClientConn, invoker grpc.UnaryInvoker, opts ...grpc.CallOption) error {
		if p, ok := ctx.Value(recKey{}).(*string); ok {
			*p = cc.Target()
		}
		return invoker(ctx, method, req, reply, cc, opts...)
	}
	dial := func(ctx context.Context, addr string) (net.Conn, error) {
		e := all[addr]
		if e == nil {
			return nil, fmt.Errorf("unknown endpoint %q", addr)
		}
		return e.dial(ctx, addr)
	}
	srec := func(ctx context.Context, desc *grpc.StreamDesc, cc *grpc.ClientConn, method string, streamer grpc.Streamer, opts ...grpc.CallOption) (grpc.ClientStream, error) {
		if p, ok := ctx.Value(recKey{}).(*string); ok {
			*p = cc.Target()
		}
		return streamer(ctx, desc, cc, method, opts...)
	}
	dopts := append(userDialOptions(c.UserOpts), grpc.WithChainUnaryInterceptor(rec), grpc.WithChainStreamInterceptor(srec), grpc.WithContextDialer(dial), grpc.WithTransportCredentials(insecure.NewCredentials()),
		grpc.WithConnectParams(grpc.ConnectParams{Backoff: backoff.Config{BaseDelay: 5 * time.Millisecond, Multiplier: 1, MaxDelay: 5 * time.Millisecond}, MinConnectTimeout: 50 * time.Millisecond}))
	w.step = -1
	o, model, def := c.Init.build(w)
	o.DialFunc = nil
	if c.MinSize > 0 || c.MaxSize > 0 {
		o.GRPCgcpConfig = &pb.ApiConfig{ChannelPool: &pb.ChannelPoolConfig{MinSize: uint32(c.MinSize), MaxSize: uint32(c.MaxSize)}}
	}
	var err error
	if len(c.StartDown)%2 == 0 {
		gme, err = grpcgcp.NewGcpMultiEndpoint(o, dopts...) // the deprecated spelling is documented to be the same constructor
		w.labels["deprecated-constructor-alias"]++
	} else {
		gme, err = grpcgcp.NewGCPMultiEndpoint(o, dopts...)
	}
	if err != nil || gme == nil {
		w.fail("C15", "construct", "NewGCPMultiEndpoint without DialFunc rejected valid options: %v", err)
	}
	w.labels["constructed-without-dial-func"]++
	w.mes, w.def = model, def
	follow := func(what string) {
		ctxs := append(append([]string{"", "no-such-multiendpoint"}, MENames...), EPNames...)
		for _, name := range ctxs {
			list := w.mes[w.meFor(name)]
			want := topUp(list, w.up)
			if want == "" {
				continue
			}
			deadline := time.Now().Add(10 * time.Second)
			w.gme, w.client = gme, hw.NewGreeterClient(gme)
			for {
				got := Probe(gme, name, 300*time.Millisecond)
				if got == want || (w.pendingDups[w.meFor(name)] && got != "" && w.up[got]) {
					// a stream opened now takes the same way
					sgot, p := w.route(name, true, true)
					if p != nil {
						panic(p)
					}
					if sgot == got || (w.pendingDups[w.meFor(name)] && sgot != "" && w.up[sgot]) {
						break
					}
					got = "stream:" + sgot
				}
				if time.Now().After(deadline) {
					w.fail("C15", "routing-default-dialer", "%s: 10s later context %q still enters pool %q, want %q (MultiEndpoint %q %v, reachable %v)", what, name, got, want, w.meFor(name), list, w.upList())
				}
				time.Sleep(2 * time.Millisecond)
			}
			w.labels["routing-followed"]++
		}
		// transports only to mentioned endpoints (pools of endpoints no longer mentioned are closed)
		ment := mentioned(w.mes)
		for _, e := range EPNames {
			if ment[e] {
				continue
			}
			for dl := time.Now().Add(5 * time.Second); all[e].liveConns() > 0; time.Sleep(time.Millisecond) {
				if time.Now().After(dl) {
					w.fail("C15", "pool-set-default-dialer", "%s: endpoint %s is not mentioned by any MultiEndpoint but still has %d transport connections after 5s", what, e, all[e].liveConns())
				}
			}
		}
	}
	follow("create")
	for i := range c.Ops {
		op := &c.Ops[i]
		w.step = i
		switch op.K {
		case "down", "up":
			e := EPNames[((op.E%len(EPNames))+len(EPNames))%len(EPNames)]
			w.up[e] = op.K == "up"
			all[e].set(w.up[e])
		case "update":
			if op.Opts == nil || op.Bad != "" {
				continue
			}
			uo, umodel, udef := op.Opts.build(w)
			uo.DialFunc = nil
			if err := gme.UpdateMultiEndpoints(uo); err != nil {
				w.fail("C15", "update-rejected", "valid update rejected: %v", err)
			}
			w.mes, w.def = umodel, udef
			w.labels["update"]++
		default:
			continue
		}
		follow(fmt.Sprintf("after %s", op.K))
	}
	w.step = len(c.Ops)
	gme.Close()
	closed = true
	for _, e := range EPNames {
		for dl := time.Now().Add(5 * time.Second); all[e].liveConns() > 0; time.Sleep(time.Millisecond) {
			if time.Now().After(dl) {
				w.fail("C16", "close-leak", "Close left %d transport connections to %s open", all[e].liveConns(), e)
			}
		}
	}
	if !waitBaseline(g0, m0) {
		w.fail("C16", "close-goroutines", "goroutines after Close: %d, before construction: %d (monitors still running: %d)", runtime.NumGoroutine(), g0, monitors()-m0)
	}
	w.labels["closed"]++
	return
}

// RunStaleMonitor is a reduced scenario with an owned schedule: the monitor goroutine of a pool that an update
// removes is held (through the log hook, at the line where it reports the state it has just read) until the endpoint
// has been added again and its new pool is READY; then it is let go. A removed pool must not influence routing any
// more (C15: "pools of endpoints no longer mentioned are closed and their monitors stopped", "routing ... follows").
// Needs the verbose logger (hx.Verbose()) and a library that logs state changes; otherwise it only checks the
// remove / re-add sequence itself.
// goid: id of the calling goroutine.
func goid() uint64 {
	var buf [64]byte
	n := runtime.Stack(buf[:], false)
	var id uint64
	for _, ch := range buf[len("goroutine "):n] {
		if ch < '0' || ch > '9' {
			break
		}
		id = id*10 + uint64(ch-'0')
	}
	return id
}

func RunStaleMonitor(c *Case, props map[string]bool) (res Result) {
	w := &world{props: props, labels: map[string]int{}, dialed: map[string][]*grpc.ClientConn{}, up: map[string]bool{}, mes: map[string][]string{}}
	res.Labels = w.labels
	all := endpoints()
	for _, n := range EPNames {
		all[n].set(true)
		w.up[n] = true
	}
	runtime.Gosched()
	g0, m0 := runtime.NumGoroutine(), monitors()
	var gme *grpcgcp.GCPMultiEndpoint
	release := make(chan struct{})
	released := false
	letGo := func() {
		if !released {
			released = true
			close(release)
		}
	}
	defer func() {
		hx.LogHook.Store(nil)
		letGo()
		if gme != nil {
			func() {
				defer func() { recover() }()
				gme.Close()
			}()
		}
		for _, conns := range w.dialed {
			for _, cc := range conns {
				cc.Close()
			}
		}
		waitBaseline(g0, m0)
		if r := recover(); r != nil {
			switch x := r.(type) {
			case failure:
				res.Fail = x.f
			case abortOther:
				res.Aborted = x.prop
			default:
				res.Fail = &Fail{Prop: "C15", Rule: "panic", Step: w.step, Msg: fmt.Sprint(r)}
			}
		}
	}()
	perm := c.Stale
	E, F := EPNames[(perm-1)%len(EPNames)], EPNames[perm%len(EPNames)]
	mk := func(l ...string) *grpcgcp.GCPMultiEndpointOptions {
		return &grpcgcp.GCPMultiEndpointOptions{MultiEndpoints: map[string]*multiendpoint.MultiEndpointOptions{"d": {Endpoints: l}}, Default: "d", DialFunc: w.dialFunc}
	}
	var err error
	if gme, err = grpcgcp.NewGCPMultiEndpoint(mk(E, F)); err != nil {
		w.fail("C15", "construct", "NewGCPMultiEndpoint rejected valid options: %v", err)
	}
	follow := func(what, want string) {
		deadline := time.Now().Add(10 * time.Second)
		for {
			got := Probe(gme, "", 300*time.Millisecond)
			if got == want {
				return
			}
			if time.Now().After(deadline) {
				w.fail("C15", "routing-after-readd", "%s: 10s later the default MultiEndpoint still enters pool %q, want %q (both endpoints reachable all the time)", what, got, want)
			}
			time.Sleep(2 * time.Millisecond)
		}
	}
	follow("create", E)
	blocked := make(chan struct{}, 1)
	var once sync.Once
	if c.Stale > 4 {
		// variant: the UPDATE itself reports the state of the kept pools. If it does so through the monitors' reporting path
		// (which logs), the updating goroutine is held there with the state it has read, the endpoint goes down, routing
		// moves away, and then the updater is released: its old reading must not win
		var updater atomic.Uint64
		hook := func(msg string) {
			if goid() == updater.Load() && strings.Contains(msg, "endpoint state changed to READY") && strings.Contains(msg, fmt.Sprintf("%q", E)) {
				held := false
				once.Do(func() { held = true })
				if held {
					blocked <- struct{}{}
					<-release
				}
			}
		}
		hx.LogHook.Store(&hook)
		udone := make(chan error, 1)
		go func() {
			updater.Store(goid())
			udone <- gme.UpdateMultiEndpoints(mk(E, F))
		}()
		select {
		case <-blocked:
			w.labels["updater-held-with-the-state-it-has-read"]++
			all[E].set(false)
			w.up[E] = false
			follow("endpoint down while an update is reporting", F)
			letGo()
		case err := <-udone:
			udone <- err
			w.labels["updater-reports-under-its-lock-nothing-to-hold"]++
		case <-time.After(2 * time.Second):
			w.labels["updater-not-observed"]++
		}
		if err := <-udone; err != nil {
			w.fail("C15", "update-rejected", "valid update rejected: %v", err)
		}
		time.Sleep(time.Duration(20+c.MinSize*10) * time.Millisecond)
		want := E
		if !w.up[E] {
			want = F
		}
		follow("after the update returned", want)
		w.labels["update-with-kept-pools"]++
		return
	}
	hook := func(msg string) {
		if strings.Contains(msg, "endpoint state changed to SHUTDOWN") && strings.Contains(msg, fmt.Sprintf("%q", E)) {
			held := false
			once.Do(func() { held = true })
			if held {
				blocked <- struct{}{}
				<-release
			}
		}
	}
	hx.LogHook.Store(&hook)
	w.step = 0
	// the update runs in a goroutine of its own: an implementation may wait for the monitors of the pools it removes before
	// it returns, and the monitor is being held here - then the hold is given up (the scenario has nothing to show)
	u1 := make(chan error, 1)
	go func() { u1 <- gme.UpdateMultiEndpoints(mk(F)) }()
	select {
	case err := <-u1:
		u1 <- err
	case <-time.After(1500 * time.Millisecond):
		w.labels["update-waits-for-the-monitor-it-removes-hold-given-up"]++
		letGo()
	}
	select {
	case err := <-u1:
		if err != nil {
			w.fail("C15", "update-rejected", "valid update rejected: %v", err)
		}
	case <-time.After(10 * time.Second):
		w.fail("C15", "update-hangs", "UpdateMultiEndpoints did not return within 10s")
	}
	select {
	case <-blocked:
		w.labels["monitor-of-removed-pool-held-before-its-last-report"]++
	case <-time.After(2 * time.Second):
		w.labels["monitor-of-removed-pool-not-observed"]++ // logging off, or the library does not log there
	}
	follow("endpoint removed", F)
	w.step = 1
	if err := gme.UpdateMultiEndpoints(mk(E, F)); err != nil {
		w.fail("C15", "update-rejected", "valid update rejected: %v", err)
	}
	follow("endpoint added again", E)
	letGo()
	w.step = 2
	time.Sleep(time.Duration(20+c.MinSize*10) * time.Millisecond) // the late report, if any, lands now
	follow("after the removed pool's monitor made its last report", E)
	w.labels["remove-and-readd"]++
	return
}
