package gmesim

import (
	"os"
	"testing"

	"pgregory.net/rapid"
	"verifharness/hx"
)

func TestMain(m *testing.M) {
	hx.Quiet()
	code := m.Run()
	hx.Flush()
	os.Exit(code)
}

func genOptions(t *rapid.T) *Options {
	n := rapid.IntRange(1, 3).Draw(t, "nME")
	names := rapid.Permutation([]int{0, 1, 2}).Draw(t, "meNames")[:n]
	o := &Options{}
	for _, name := range names {
		k := rapid.IntRange(1, 3).Draw(t, "nEP")
		o.MEs = append(o.MEs, ME{Name: name, Eps: append([]int{}, rapid.Permutation([]int{0, 1, 2, 3}).Draw(t, "eps")[:k]...),
			Dup: rapid.SampledFrom([]int{0, 0, 0, 0, 0, 0, 0, 1, 2, 3}).Draw(t, "dup"),
			RMs: rapid.SampledFrom([]int{0, 0, 0, 0, 1, 5}).Draw(t, "rms"), DMs: rapid.SampledFrom([]int{0, 0, 0, 1, 5, 20, 20}).Draw(t, "dms")})
	}
	for i := range o.MEs {
		if rapid.IntRange(0, 5).Draw(t, "epname") == 0 {
			// the MultiEndpoint is called like an endpoint address (its own primary one, or any)
			o.MEs[i].Name = 100 + rapid.SampledFrom(append([]int{o.MEs[i].Eps[0]}, 0, 1, 2, 3)).Draw(t, "epnameidx")
		}
	}
	if rapid.IntRange(0, 7).Draw(t, "emptyname") == 0 {
		o.MEs[rapid.IntRange(0, n-1).Draw(t, "emptynamewhich")].Name = 99 // a MultiEndpoint whose name is the empty string
	}
	o.Default = rapid.IntRange(0, n-1).Draw(t, "def")
	return o
}

func genCase(t *rapid.T, withInvalid bool) *Case {
	c := &Case{Init: *genOptions(t), InPlace: rapid.IntRange(0, 2).Draw(t, "inplace") == 0}
	if rapid.IntRange(0, 2).Draw(t, "withcfg") == 0 {
		c.MinSize = rapid.IntRange(0, 3).Draw(t, "minSize")
		c.MaxSize = rapid.SampledFrom([]int{0, 0, 4}).Draw(t, "maxSize")
		if c.MaxSize != 0 && c.MaxSize < c.MinSize {
			c.MaxSize = c.MinSize
		}
	}
	c.UserOpts = rapid.SampledFrom([]int{0, 0, 0, 0, 1, 2, 3, 4}).Draw(t, "userOpts")
	if hx.Verbose() && rapid.IntRange(0, 5).Draw(t, "stale") == 0 {
		c.Stale = rapid.IntRange(1, 8).Draw(t, "staleWhich") // 5..8: the update-reports variant
	}
	c.NoDialFunc = rapid.IntRange(0, 9).Draw(t, "noDialFunc") == 0
	c.LateAppend = rapid.IntRange(0, 4).Draw(t, "lateAppend") == 0
	if rapid.IntRange(0, 5).Draw(t, "extClose") == 0 {
		c.ExtClose = rapid.IntRange(1, 4).Draw(t, "extCloseWhich")
	}
	for i := range EPNames {
		if rapid.IntRange(0, 3).Draw(t, "startDown") == 0 {
			c.StartDown = append(c.StartDown, i)
		}
	}
	if withInvalid && rapid.IntRange(0, 3).Draw(t, "badinit") == 0 {
		c.BadInit = rapid.SampledFrom([]string{"nodefault", "empty-new", "nil-options", "nil-pointer", "dialfail", "dialfail-first"}).Draw(t, "badinitkind")
	}
	if rapid.IntRange(0, 5).Draw(t, "delayedTargetRemoved") == 0 {
		// steer: a delayed switch to a better endpoint is pending when an update removes that endpoint
		perm := rapid.Permutation([]int{0, 1, 2, 3}).Draw(t, "dperm")
		a, b := perm[0], perm[1]
		d := rapid.SampledFrom([]int{5, 20, 20}).Draw(t, "ddelay")
		c.StartDown = []int{a}
		c.Init = Options{MEs: []ME{{Name: 0, Eps: []int{a, b}, DMs: d}, {Name: 1, Eps: []int{b, perm[2]}}}, Default: rapid.IntRange(0, 1).Draw(t, "ddef")}
		first := Op{K: "update", Opts: &Options{MEs: []ME{{Name: 0, Eps: []int{a, b}, DMs: d}, {Name: 1, Eps: []int{b, perm[2]}}}, Default: 0}, Flip: a + 1, Nth: rapid.IntRange(0, 3).Draw(t, "dwait")}
		if rapid.Bool().Draw(t, "dquick") {
			first = Op{K: "upquick", E: a, Nth: rapid.IntRange(0, 2).Draw(t, "dwaitq")}
		}
		c.Ops = []Op{
			first,
			{K: "update", Opts: &Options{MEs: []ME{{Name: 0, Eps: []int{b, perm[3]}, DMs: d}, {Name: 1, Eps: []int{b}}}, Default: 0}},
			{K: "rpc", Ctx: 1}, {K: "rpc", Ctx: 0}, {K: "up", E: a}, {K: "rpc", Ctx: 2},
		}
		return c
	}
	if rapid.IntRange(0, 7).Draw(t, "commaSplit") == 0 {
		// steer: an endpoint whose address contains a comma is replaced by the two endpoints it is spelled like, or the reverse
		pair := rapid.IntRange(0, 1).Draw(t, "cpair")
		whole, parts := []int{4 + pair}, []int{2 * pair, 2*pair + 1}
		from, to := whole, parts
		if rapid.Bool().Draw(t, "creverse") {
			from, to = parts, whole
		}
		other := rapid.IntRange(0, 3).Draw(t, "cother")
		c.StartDown = nil
		c.Init = Options{MEs: []ME{{Name: 0, Eps: from}, {Name: 1, Eps: []int{other}}}, Default: rapid.IntRange(0, 1).Draw(t, "cdef")}
		c.Ops = []Op{{K: "update", Opts: &Options{MEs: []ME{{Name: 0, Eps: to}, {Name: 1, Eps: []int{other}}}, Default: c.Init.Default}},
			{K: "rpc", Ctx: 0}, {K: "rpc", Ctx: 1}, {K: "rpc", Ctx: 2}, {K: "rpc", Ctx: 3},
			{K: "update", Opts: &Options{MEs: []ME{{Name: 0, Eps: from}, {Name: 1, Eps: []int{other}}}, Default: c.Init.Default}}, {K: "rpc", Ctx: 2}}
		return c
	}
	kinds := []string{"update", "update", "down", "down", "up", "up", "rpc", "extclose"}
	if withInvalid {
		kinds = append(kinds, "bad", "bad", "bad")
	} else {
		kinds = append(kinds, "update", "bad") // rejected updates also occur in C15 histories: what follows them must still satisfy C15
	}
	c.Ops = rapid.SliceOfN(rapid.Custom(func(t *rapid.T) Op {
		switch k := rapid.SampledFrom(kinds).Draw(t, "op"); k {
		case "update":
			op := Op{K: k, Opts: genOptions(t)}
			if rapid.IntRange(0, 2).Draw(t, "flip") == 0 {
				op.Flip, op.Nth = rapid.IntRange(1, 4).Draw(t, "flipE"), rapid.IntRange(0, 3).Draw(t, "flipWait")
			}
			return op
		case "bad":
			return Op{K: k, Opts: genOptions(t), Bad: rapid.SampledFrom([]string{"nodefault", "empty-existing", "empty-new", "nil-options", "nil-pointer", "dialfail", "dialfail"}).Draw(t, "bad"), Nth: rapid.IntRange(0, 3).Draw(t, "nth"),
				Strm: rapid.Bool().Draw(t, "retry")}
		case "rpc":
			return Op{K: k, Ctx: rapid.IntRange(0, 4).Draw(t, "ctx"), Strm: rapid.Bool().Draw(t, "stream")}
		case "extclose":
			return Op{K: k, E: rapid.IntRange(0, 5).Draw(t, "xe")}
		default:
			return Op{K: k, E: rapid.IntRange(0, 3).Draw(t, "e")}
		}
	}), 1, 8).Draw(t, "ops")
	// a configuration watcher retries: the options of an update that failed in a dial are offered again, unchanged
	var ops []Op
	for _, op := range c.Ops {
		ops = append(ops, op)
		if op.K == "bad" && op.Bad == "dialfail" && op.Strm {
			ops = append(ops, Op{K: "update", Opts: op.Opts}, Op{K: "rpc", Ctx: 0}, Op{K: "rpc", Ctx: 2})
		}
	}
	c.Ops = ops
	return c
}

func runProp(t *testing.T, prop string, nontriv func(map[string]int) bool) {
	props := map[string]bool{prop: true}
	st := hx.For(prop)
	finish := func(c *Case, r Result) *Fail {
		if r.Fail != nil {
			st.Failed()
			c.Failure, c.Property = r.Fail, prop
			hx.WriteReplay(prop, c)
			return r.Fail
		}
		if r.Aborted != "" {
			st.Label("aborted-by-other-property-"+r.Aborted, 1)
		}
		st.Case(r.Steps, r.Labels, nontriv(r.Labels), c)
		return nil
	}
	if p := hx.ReplayIn(); p != "" {
		var c Case
		if err := hx.Load(p, &c); err != nil {
			t.Fatal(err)
		}
		c.Failure = nil
		// timing-dependent: a replay is repeated a few times
		for i := 0; i < 5; i++ {
			if f := finish(&c, Run(&c, props)); f != nil {
				t.Fatalf("replay %s: %v", p, f)
			}
		}
		return
	}
	for _, p := range hx.Corpus(prop) {
		var c Case
		if err := hx.Load(p, &c); err != nil {
			t.Fatal(err)
		}
		c.Failure = nil
		if f := finish(&c, Run(&c, props)); f != nil {
			t.Fatalf("corpus %s: %v", p, f)
		}
		st.Label("corpus-replayed", 1)
	}
	rapid.Check(t, func(rt *rapid.T) {
		c := genCase(rt, prop == "C16")
		if f := finish(c, Run(c, props)); f != nil {
			rt.Fatalf("%v", f)
		}
	})
}

func TestC15(t *testing.T) {
	runProp(t, "C15", func(l map[string]int) bool {
		return l["several-multiendpoints"] > 0 && l["pool-kept"] > 0 && l["pool-removed"] > 0 && l["fault-moves-routing"] > 0
	})
}

// TestC17GME: construction only, with a drawn channel-pool minSize; the pools open max(1,minSize) transport connections.
func TestC17GME(t *testing.T) {
	props := map[string]bool{"C17": true}
	st := hx.For("C17")
	one := func(c *Case) *Fail {
		r := Run(c, props)
		if r.Fail != nil {
			st.Failed()
			c.Failure, c.Property = r.Fail, "C17"
			hx.WriteReplay("C17", c)
			return r.Fail
		}
		st.Case(1, r.Labels, r.Labels["pool-transport-connections-checked"] > 0 && c.MinSize != 1, c)
		return nil
	}
	if p := hx.ReplayIn(); p != "" {
		var c Case
		if err := hx.Load(p, &c); err != nil {
			t.Fatal(err)
		}
		c.Failure = nil
		if f := one(&c); f != nil {
			t.Fatalf("replay: %v", f)
		}
		return
	}
	rapid.Check(t, func(rt *rapid.T) {
		c := &Case{Init: *genOptions(rt), MinSize: rapid.IntRange(0, 3).Draw(rt, "minSize"), MaxSize: rapid.SampledFrom([]int{0, 0, 3, 4}).Draw(rt, "maxSize"),
			UserOpts: rapid.SampledFrom([]int{0, 0, 1, 2, 3, 4}).Draw(rt, "userOpts"), LateAppend: rapid.IntRange(0, 2).Draw(rt, "lateAppend") == 0}
		if rapid.IntRange(0, 1).Draw(rt, "withUpdate") == 0 {
			// an update that brings in endpoints not dialed so far: their pools get the same configuration
			c.Ops = []Op{{K: "update", Opts: genOptions(rt)}}
		}
		if c.MaxSize != 0 && c.MaxSize < c.MinSize {
			c.MaxSize = c.MinSize
		}
		for i := range EPNames {
			if rapid.IntRange(0, 5).Draw(rt, "startDown") == 0 {
				c.StartDown = append(c.StartDown, i)
			}
		}
		if f := one(c); f != nil {
			rt.Fatalf("%v", f)
		}
	})
}

func TestC16(t *testing.T) {
	runProp(t, "C16", func(l map[string]int) bool {
		return l["bad-update-with-several-pools"] > 0 && l["closed"] > 0 || l["failed-construction-dialfail"] > 0
	})
}
