package poolsim

import (
	"context"
	"encoding/json"
	"errors"
	"fmt"
	"io"
	"math/big"
	"os"
	"runtime"
	"runtime/debug"
	"sort"
	"strings"
	"sync/atomic"
	"testing/synctest"
	"time"
	twina "verifharness/poolsim/ta/twin"
	twinb "verifharness/poolsim/tb/twin"

	"github.com/GoogleCloudPlatform/grpc-gcp-go/grpcgcp"
	"google.golang.org/grpc/balancer"
	"google.golang.org/grpc/codes"
	"google.golang.org/grpc/connectivity"
	"google.golang.org/grpc/resolver"
	"google.golang.org/grpc/serviceconfig"
	"google.golang.org/grpc/status"
	"google.golang.org/protobuf/proto"

	pb "github.com/GoogleCloudPlatform/grpc-gcp-go/grpcgcp/grpc_gcp"
)

// scribble overwrites every part of a configuration object the caller still owns.
func scribble(c *pb.ApiConfig) {
	if c == nil {
		return
	}
	if c.ChannelPool != nil {
		*c.ChannelPool = pb.ChannelPoolConfig{MinSize: 77, MaxSize: 78, MaxConcurrentStreamsLowWatermark: 1, FallbackToReady: !c.ChannelPool.FallbackToReady, UnresponsiveDetectionMs: 1, UnresponsiveCalls: 1}
	} else {
		c.ChannelPool = &pb.ChannelPoolConfig{MinSize: 77, MaxSize: 78}
	}
	for _, m := range c.Method {
		for i := range m.Name {
			m.Name[i] = "/scribbled"
		}
		if m.Affinity != nil {
			m.Affinity.AffinityKey = "scribbled"
			m.Affinity.Command = pb.AffinityConfig_BOUND
		}
	}
	c.Method = append(c.Method, &pb.MethodConfig{Name: []string{"/plain", "/unknown"}, Affinity: &pb.AffinityConfig{Command: pb.AffinityConfig_BOUND, AffinityKey: "key"}})
}

// Opts selects the oracles that may fail and harness features.
type Opts struct {
	Props map[string]bool   // enabled properties; a failure of another property's rule ends the case silently
	Probe bool              // C06 lock probe after every op
	Alias map[string]string // failures of property X are reported as Alias[X] (C17 observes defaults through pool behaviour)
}

// Result of one executed case.
type Result struct {
	Fail    *Fail
	Labels  map[string]int
	Steps   int
	Aborted string // property whose (disabled) oracle failed first
}

type slot struct {
	conn       *fsc
	st         connectivity.State
	alive      bool
	inflight   int
	lastResp   time.Time
	de, k      int
	refreshing bool
	repl       *fsc
	everDead   bool
	swaps      int
}

type pubrec struct {
	state  connectivity.State
	picker balancer.Picker
	snap   []int
}

type callrec struct {
	id       int
	slot     int
	done     func(balancer.DoneInfo)
	m        Method
	key      string
	ctx      context.Context
	cancel   context.CancelFunc
	start    time.Time
	hasIC    bool
	stale    bool
	afterSwp bool

	bindReqKey string
	replyKeys  []string
	nilInSubs  bool // the reply's repeated message field holds a nil element
}

// boundKeys is the reference extraction of the keys a successful BIND binds.
func (c *callrec) boundKeys() []string {
	if c.replyKeys == nil {
		return nil
	}
	switch c.m.Path {
	case "key":
		if len(c.replyKeys) == 0 {
			return []string{""}
		}
		return c.replyKeys[:1]
	case "keys":
		return c.replyKeys
	case "subs.key":
		if c.nilInSubs {
			return nil // a nil nested message is an error: the reply binds nothing, not even the keys in front of it
		}
		return c.replyKeys
	}
	return nil
}

// pendingPick is a pick that did not return by the time the bubble settled.
type pendingPick struct {
	ch       chan pickOut
	what     string
	m        Method
	key      string
	ctx      context.Context
	cancel   context.CancelFunc
	hasIC    bool
	stale    bool
	pub      pubrec
	assigned int // model's assignment (-1 = unknown)
	issuedAt time.Time
	opKey    string
}

type pickOut struct {
	res    balancer.PickResult
	err    error
	at     time.Time
	panicv interface{}
	stack  string
}

type failure struct{ f *Fail }
type abortOther struct{ prop string }

// Journal is updated before every op so that the watchdog can tell what hung.
var (
	OpCounter atomic.Int64
	InOp      atomic.Bool
	CurOp     atomic.Value // string
	CurCase   atomic.Pointer[Case]
	CurStep   atomic.Int64
	CurProps  atomic.Value // string
)

type world struct {
	completing   *callrec        // the call whose completion callback is running
	crProbed     *callrec        // the call the creation probe has completed in this step
	crLate       []chan struct{} // creation probes still waiting for a lock
	rcvNext      bool            // the completion being executed reports BytesReceived although it failed
	discardedAff bool            // a BIND/UNBIND pick was discarded by gRPC earlier in this history
	latePanic    string
	rmProbes     []rmProbe
	rmLate       []chan rmProbe
	c            *Case
	o            *Opts
	cc           *fcc
	b            balancer.Balancer
	cfg          Config // effective, once fixed
	cfgFixed     bool
	L            int
	everNonEmpty bool
	slots        []*slot
	pubs         []pubrec
	calls        []*callrec
	pend         []*pendingPick
	aff          map[string]int
	standin      map[string]int
	tainted      map[string]bool
	labels       map[string]int
	step         int
	ncalls       int
	foreign      []*fsc
	// round robin
	rrCount     int // BIND picks issued since the cursor was last synchronised
	rrBase      int // slot index assigned to the pick that synchronised the cursor
	rrSynced    bool
	rrLen       int
	rrList      []int // slots in the order the rotation visits them: creation order; a channel that left the pool (SHUTDOWN) is out, one that comes back through its replacement goes to the end
	rrPos       int   // position in rrList of the last synchronised assignment
	rrGen       int   // bumped whenever rrList changes
	rrGenSeen   int   // rrGen at the last (re)synchronisation attempt
	rrEver      bool  // some BIND was assigned already
	rrLastUns   *pendingPick
	aggBefore   connectivity.State // aggregate at the start of the current primitive op
	aliveBefore int                // pool connections at the start of the current primitive op
	anySwap     bool
	sawResolve  bool
	sawResErr   bool
}

// fail reports a violated rule. prop may list alternatives ("C09|C06"): the first enabled one is
// reported. A rule of a property that is not enabled ends the case silently (the model may have
// diverged from the implementation), unless Opts.Alias maps it to an enabled property.
func (w *world) fail(prop, rule, f string, a ...interface{}) {
	msg := fmt.Sprintf(f, a...)
	alts := strings.Split(prop, "|")
	if w.discardedAff && rule != "panic" && rule != "hang" {
		// the history contains a pick of a BIND/UNBIND call that gRPC discarded: the library treats its Done(DoneInfo{}) as a
		// successful completion (binds / unbinds, counts a response); what follows from that is the listed known finding
		for _, p := range alts {
			if (p == "C01" || p == "C08" || p == "C02" || p == "C07") && w.o.Props[p] || w.o.Props[w.o.Alias[p]] && w.o.Alias[p] != "" {
				if k := knownFinding("discarded-pick-treated-as-completion"); k != "" {
					if !knownPrinted[k] {
						knownPrinted[k] = true
						fmt.Printf("KNOWN-FINDING: property=%s %s\n", CurProps.Load(), k)
					}
					w.labels["case-ends-in-a-known-finding"]++
					panic(abortOther{"known-finding"})
				}
			}
		}
	}
	for _, p := range alts {
		if w.o.Props[p] {
			panic(failure{&Fail{Prop: p, Rule: rule, Step: w.step, Msg: msg}})
		}
	}
	// C07: "the replacement takes over the channel (its bound keys, active streams and position)": once a swap
	// happened in this history, routing/accounting/rotation rules also speak for C07
	if w.anySwap && w.o.Props["C07"] {
		for _, p := range alts {
			if p == "C01" || p == "C02" || p == "C09" {
				panic(failure{&Fail{Prop: "C07", Rule: p + ":" + rule + " (after a refresh swap)", Step: w.step, Msg: msg}})
			}
		}
	}
	for _, p := range alts {
		if al := w.o.Alias[p]; al != "" && w.o.Props[al] {
			panic(failure{&Fail{Prop: al, Rule: p + ":" + rule, Step: w.step, Msg: msg}})
		}
	}
	panic(abortOther{alts[0]})
}

// cares reports whether some enabled property has an expectation on the outcome of this op kind.
func (w *world) activeProp() string {
	var ps []string
	for p, on := range w.o.Props {
		if on {
			ps = append(ps, p)
		}
	}
	sort.Strings(ps)
	if len(ps) == 0 {
		return "C05"
	}
	return ps[0]
}

func (w *world) resetObs() {
	w.cc.reset()
	w.aggBefore = w.agg()
	w.aliveBefore = w.alive()
}

func (w *world) ready(i int) bool { return w.slots[i].alive && w.slots[i].st == connectivity.Ready }
func (w *world) readySet() []int {
	var r []int
	for i := range w.slots {
		if w.ready(i) {
			r = append(r, i)
		}
	}
	return r
}
func (w *world) agg() connectivity.State {
	conn := false
	for _, s := range w.slots {
		if s.alive && s.st == connectivity.Ready {
			return connectivity.Ready
		}
		if s.alive && s.st == connectivity.Connecting {
			conn = true
		}
	}
	if conn {
		return connectivity.Connecting
	}
	return connectivity.TransientFailure
}
func (w *world) alive() int {
	n := 0
	for _, s := range w.slots {
		if s.alive {
			n++
		}
	}
	return n
}
func (w *world) role(sc *fsc) (string, int) {
	for i, s := range w.slots {
		if s.conn == sc && s.alive {
			return "pool", i
		}
	}
	for i, s := range w.slots {
		if s.repl == sc {
			return "repl", i
		}
	}
	if sc.foreign {
		return "unknown", -1
	}
	return "removed", -1
}
func (w *world) slotOfConn(sc balancer.SubConn) int {
	for i, s := range w.slots {
		if balancer.SubConn(s.conn) == sc {
			return i
		}
	}
	return -1
}

// absorbStray: a waiting round-robin BIND whose channel left the pool goes on with the next channel of the rotation; when
// the rotation is empty it (re-)creates a channel first - asynchronously to the ops of the history. Such connections
// are pool channels like any other.
func (w *world) absorbStray() {
	for _, sc := range w.cc.all {
		if sc.foreign || w.slotOfConn(sc) >= 0 || w.cc.everRemoved[balancer.SubConn(sc)] {
			continue
		}
		isRepl := false
		for _, sl := range w.slots {
			if sl.repl == sc {
				isRepl = true
			}
		}
		if isRepl {
			continue
		}
		w.addSlot(sc)
		w.labels["pool-recreated-by-a-waiting-bind"]++
	}
}

func (w *world) allAliveReady() bool {
	for _, s := range w.slots {
		if s.alive && s.st != connectivity.Ready {
			return false
		}
	}
	return true
}
func (w *world) idleOrConnecting() bool {
	for _, s := range w.slots {
		if s.alive && (s.st == connectivity.Idle || s.st == connectivity.Connecting) {
			return true
		}
	}
	return false
}
func (w *world) factoryRefuses() bool { return w.cc.failNew || (w.cc.strict && addrName(w.L) == "") }

func (w *world) addSlot(sc *fsc) {
	w.slots = append(w.slots, &slot{conn: sc, st: connectivity.Idle, alive: true, lastResp: time.Now()})
	w.rrList = append(w.rrList, len(w.slots)-1)
	w.rrGen++
}

func (w *world) rrRemove(i int) {
	for k, x := range w.rrList {
		if x == i {
			w.rrList = append(append([]int{}, w.rrList[:k]...), w.rrList[k+1:]...)
			w.rrGen++
			break
		}
	}
	for _, pp := range w.pend {
		if pp.assigned == i {
			pp.assigned = -1 // the library takes the next channel of the rotation for it
			w.labels["rr-waiting-bind-retargeted"]++
		}
	}
}

// checkPub absorbs the publications of this step and applies the C04 rules.
func (w *world) checkPub(what string, R0 []int) {
	R1, a1 := w.readySet(), w.agg()
	// every single publication of this step carries the aggregate before or after the step: nothing in
	// between is ever shown to the channel (e.g. completing a refresh does not perturb the published state)
	for i, p := range w.cc.pubs {
		if len(w.pubs) > 0 || i > 0 {
			if p.ConnectivityState != w.aggBefore && p.ConnectivityState != a1 {
				w.fail("C04", "A.pub.3", "%s: intermediate publication #%d of this step carries %v; the aggregate was %v before and is %v after the step", what, i+1, p.ConnectivityState, w.aggBefore, a1)
			}
		}
	}
	for _, p := range w.cc.pubs {
		w.pubs = append(w.pubs, pubrec{p.ConnectivityState, p.Picker, R1})
		w.labels["published-"+stNames[p.ConnectivityState]]++
	}
	if fmt.Sprint(R0) != fmt.Sprint(R1) && len(w.cc.pubs) == 0 {
		w.fail("C04", "A.pub.1", "%s: READY set changed %v -> %v but nothing was published", what, R0, R1)
	}
	if w.aliveBefore > 0 && w.alive() > 0 && (w.aggBefore == connectivity.TransientFailure) != (a1 == connectivity.TransientFailure) && len(w.cc.pubs) == 0 {
		// also before anything was ever published: a pool whose connections were all idle (aggregate
		// TRANSIENT_FAILURE by the definition of C04) starts connecting
		w.fail("C04", "A.pub.4", "%s: the aggregate went from %v to %v (a change to or from TRANSIENT_FAILURE) but nothing was published (%s)", what, w.aggBefore, a1, w.describe())
	}
	if len(w.pubs) > 0 && w.pubs[len(w.pubs)-1].state != a1 {
		w.fail("C04", "A.pub.2", "%s: last published state %v, pool aggregate is %v (slots %s)", what, w.pubs[len(w.pubs)-1].state, a1, w.describe())
	}
}

func (w *world) describe() string {
	s := ""
	for i, sl := range w.slots {
		s += fmt.Sprintf("[%d:%v %s alive=%v inflight=%d repl=%v]", i, sl.conn, stNames[sl.st], sl.alive, sl.inflight, sl.repl != nil)
	}
	return s
}

func maxi(a, b int) int {
	if a > b {
		return a
	}
	return b
}

// ---- ops -------------------------------------------------------------------------------------

func (w *world) opResolve(op *Op) {
	R0 := w.readySet()
	w.resetObs()
	before := map[*fsc]int{}
	for _, s := range w.slots {
		if s.alive {
			before[s.conn] = s.conn.connects
		}
	}
	wasEmpty := w.alive() == 0
	li := addrIdx(op.Addrs)
	ccs := balancer.ClientConnState{ResolverState: resolver.State{Addresses: append([]resolver.Address(nil), addrSets[li]...)}} // a resolver hands out a fresh list every time
	if op.SC {
		ccs.ResolverState.ServiceConfig = &serviceconfig.ParseResult{}
		w.labels["resolve-with-service-config"]++
	}
	if li >= 4 {
		w.labels["resolve-attributes-only-variant"]++
	}
	var cfgUsed *Config
	switch op.Cfg {
	case 0:
		cfgUsed = &w.c.Config
	case 3:
		cfgUsed = &w.c.Alt
	case 2:
		ccs.BalancerConfig = foreignCfg{}
	}
	var parsed *grpcgcp.GCPBalancerConfig
	var clone proto.Message
	if cfgUsed != nil {
		p, err := balancer.Get("grpc_gcp").(balancer.ConfigParser).ParseConfig([]byte(cfgUsed.JSON()))
		if err != nil {
			w.fail("C17", "parse", "ParseConfig(%s): %v", cfgUsed.JSON(), err)
		}
		parsed = p.(*grpcgcp.GCPBalancerConfig)
		clone = proto.Clone(parsed.ApiConfig)
		ccs.BalancerConfig = parsed
	}
	if wasEmpty {
		if len(w.slots) > 0 {
			w.labels["resolve-on-emptied-pool"]++
		}
	}
	err := w.b.UpdateClientConnState(ccs)
	if parsed != nil {
		if !proto.Equal(clone, parsed.ApiConfig) {
			w.fail("C17", "A.cfg.mutated", "the balancer changed the caller's configuration object: before %v after %v", clone, parsed.ApiConfig)
		}
		// the caller scribbles over its object afterwards: the balancer must not alias it
		scribble(parsed.ApiConfig)
	}
	if !w.cfgFixed {
		if op.Cfg == 2 {
			w.labels["foreign-config"]++
			if err == nil {
				w.fail("C17", "A.resolve.foreign", "config of a foreign type accepted")
			}
			if len(w.cc.created) != 0 {
				w.fail("C03", "A.resolve.foreign", "conns created although the config was rejected")
			}
			// the address list was possibly taken; the model only remembers it after an accepted call
			w.L = li
			return
		}
		w.cfgFixed = true
		if cfgUsed != nil {
			w.cfg = cfgUsed.effective()
		} else {
			w.cfg = Config{Methods: "none"}.effective()
			w.labels["nil-config-defaults"]++
		}
		w.cfg.Strict = w.c.Config.Strict
	} else if op.Cfg == 3 || op.Cfg == 2 {
		w.labels["later-config-ignored"]++
	}
	if err != nil {
		w.fail("C17", "A.resolve.err", "resolver update rejected: %v", err)
	}
	w.L = li
	name := addrName(li)
	if wasEmpty {
		want := maxi(1, w.cfg.Min)
		refuses := w.factoryRefuses()
		n := len(w.cc.created)
		switch {
		case refuses && n != 0:
			w.fail("C03", "A.resolve.refused", "conns created although the factory refuses")
		case !refuses && !w.everNonEmpty && name != "" && n != want:
			w.fail("C03", "A.resolve.min", "first non-empty resolver update created %d conns, want max(1,minSize)=%d", n, want)
		case !refuses && (n < 1 || n > want):
			w.fail("C03", "A.resolve.recreate", "(re)creation of an empty pool created %d conns, want 1..%d", n, want)
		}
		if len(w.slots) > 0 && n > 0 {
			w.labels["pool-recreated"]++
		}
		if refuses {
			w.labels["resolve-factory-refuses"]++
		}
		for _, sc := range w.cc.created {
			if sc.addrs != name {
				w.fail("C20", "A.resolve.addr", "conn created with addresses %q, resolved %q", sc.addrs, name)
			}
			if sc.connects == 0 {
				w.fail("C20", "A.resolve.connect", "new conn %v was not asked to connect", sc)
			}
			w.addSlot(sc)
		}
	} else if len(w.cc.created) != 0 {
		w.fail("C03", "A.resolve.nonempty", "NewSubConn during a resolver update on a non-empty pool")
	}
	if name != "" {
		w.everNonEmpty = true
	}
	for i, s := range w.slots {
		if s.alive {
			if s.conn.addrs != name {
				w.fail("C20", "A.resolve.pooladdr", "pool conn %v (slot %d) has addresses %q after resolving %q", s.conn, i, s.conn.addrs, name)
			}
			if c0, ok := before[s.conn]; ok && s.conn.connects <= c0 {
				w.fail("C20", "A.resolve.reconnect", "pool conn %v (slot %d) was not asked to reconnect", s.conn, i)
			}
		}
		if s.repl != nil {
			w.labels["resolve-during-refresh"]++
		}
	}
	if len(w.cc.removed) != 0 {
		w.fail("C03", "A.remove", "RemoveSubConn during a resolver update")
	}
	w.sawResolve = true
	w.checkPub("Resolve", R0)
}

// pickerProp: the published picker answers like its state says (C04); once a resolver error was reported, a deviation
// is also a change in how calls are routed after a resolver error (C20).
func (w *world) pickerProp() string {
	if w.sawResErr {
		return "C04|C20"
	}
	return "C04"
}

func (w *world) opResolverErr(op *Op) {
	w.sawResErr = true
	R0 := w.readySet()
	w.resetObs()
	addrs := map[*fsc]string{}
	for _, sc := range w.cc.all {
		addrs[sc] = sc.addrs
	}
	w.b.ResolverError(resolverErr(op.Out))
	if len(w.cc.created)+len(w.cc.removed)+len(w.cc.pubs)+w.cc.updAddr != 0 {
		w.fail("C20", "A.reserr", "resolver error caused ClientConn calls: created=%d removed=%d published=%d updateAddresses=%d", len(w.cc.created), len(w.cc.removed), len(w.cc.pubs), w.cc.updAddr)
	}
	for sc, a := range addrs {
		if sc.addrs != a {
			w.fail("C20", "A.reserr", "resolver error changed the addresses of %v", sc)
		}
	}
	w.labels["resolver-error"]++
	w.checkPub("ResolverError", R0)
}

// okStatusErr is an error whose GRPCStatus() says OK (status.Code() of it is OK although it is not nil).
type okStatusErr struct{}

func (okStatusErr) Error() string              { return "failed, but the attached status says OK" }
func (okStatusErr) GRPCStatus() *status.Status { return status.New(codes.OK, "") }

// resolverErrT is an error of a type of the harness's own (a resolver may report any error type).
type resolverErrT struct{ code int }

func (e resolverErrT) Error() string { return fmt.Sprintf("resolver failed with code %d", e.code) }

func resolverErr(kind int) error {
	switch kind {
	case 1:
		return status.Error(codes.Unavailable, "name resolution failed")
	case 2:
		return errors.New("resolver failed (plain)")
	case 3:
		return resolverErrT{3}
	case 4:
		return &resolverErrT{4}
	case 5:
		return context.DeadlineExceeded
	case 6:
		return fmt.Errorf("wrapped: %w", io.EOF)
	}
	return fmt.Errorf("resolver failed")
}

func (w *world) selectConn(op *Op) *fsc {
	pick := func(l []*fsc) *fsc {
		if len(l) == 0 {
			return nil
		}
		return l[((op.Idx%len(l))+len(l))%len(l)]
	}
	var pool, repl, removed []*fsc
	for _, s := range w.slots {
		if s.alive {
			pool = append(pool, s.conn)
		}
		if s.repl != nil {
			repl = append(repl, s.repl)
		}
	}
	for _, sc := range w.cc.all {
		if r, _ := w.role(sc); r == "removed" {
			removed = append(removed, sc)
		}
	}
	var sc *fsc
	key := Keys[((op.Key%len(Keys))+len(Keys))%len(Keys)]
	switch op.Sel {
	case 4: // the replacement of the home slot of key (else any replacement)
		if h, ok := w.aff[key]; ok && w.slots[h].repl != nil {
			sc = w.slots[h].repl
		} else {
			sc = pick(repl)
		}
	case 5: // the home slot of key
		if h, ok := w.aff[key]; ok && w.slots[h].alive {
			sc = w.slots[h].conn
		}
	case 6: // the stand-in slot of key
		if f, ok := w.standin[key]; ok && w.slots[f].alive {
			sc = w.slots[f].conn
		}
	case 7: // the channel that carries the outstanding call Idx (negative: counted from the most recent)
		if n := len(w.calls); n > 0 {
			c := w.calls[((op.Idx%n)+n)%n]
			if c.slot >= 0 && c.slot < len(w.slots) && w.slots[c.slot].alive {
				sc = w.slots[c.slot].conn
			}
		}
	case 8: // the pool connection of a channel whose refresh is in flight (Idx-th of them)
		var l []*fsc
		for _, sl := range w.slots {
			if sl.alive && sl.repl != nil {
				l = append(l, sl.conn)
			}
		}
		sc = pick(l)
	case 1:
		sc = pick(repl)
	case 2:
		sc = pick(removed)
	case 3:
		if len(w.foreign) < 2 {
			w.foreign = append(w.foreign, &fsc{id: 1000 + len(w.foreign), foreign: true})
		}
		sc = pick(w.foreign)
	}
	if sc == nil {
		sc = pick(pool)
	}
	if sc == nil {
		sc = pick(removed)
	}
	return sc
}

func (w *world) opState(op *Op) {
	sc := w.selectConn(op)
	if sc == nil {
		return
	}
	w.doState(sc, connectivity.State(((op.St%5)+5)%5))
}

func (w *world) doState(sc *fsc, s connectivity.State) {
	R0 := w.readySet()
	w.resetObs()
	role, i := w.role(sc)
	what := fmt.Sprintf("State(%s %v,%s)", role, sc, stNames[s])
	connectsBefore := sc.connects
	w.b.UpdateSubConnState(sc, balancer.SubConnState{ConnectivityState: s})
	if role == "repl" && s == connectivity.Idle {
		// gRPC parks a connection whose attempt failed in IDLE until Connect() is called: a replacement left there
		// never becomes READY, the refresh never ends and (one refresh per channel) none can follow
		w.labels["replacement-reported-idle"]++
		if sc.connects == connectsBefore {
			w.fail("C07", "A.repl.idle", "%s: the replacement connection went IDLE and was not asked to connect again: this refresh can never complete and the channel can never be refreshed again", what)
		}
	}
	switch role {
	case "pool":
		sl := w.slots[i]
		prev := sl.st
		if prev == s {
			w.labels["repeated-state-report"]++
		}
		if prev == connectivity.Ready && s != connectivity.Ready {
			for k, f := range w.standin {
				if f == i {
					delete(w.standin, k)
					w.labels["standin-failed"]++
				}
			}
		}
		if prev != connectivity.Ready && s == connectivity.Ready {
			for k := range w.standin {
				if h, ok := w.aff[k]; ok && h == i {
					delete(w.standin, k)
					w.labels["home-recovered"]++
				}
			}
		}
		sl.st = s
		if s == connectivity.Shutdown {
			sl.alive = false
			sl.everDead = true
			w.rrRemove(i)
			for k, h := range w.aff {
				if h == i {
					w.tainted[k] = true
				}
			}
			w.labels["pool-conn-shutdown"]++
			if sl.repl != nil {
				w.labels["shutdown-during-refresh"]++
			}
		}
	case "repl":
		sl := w.slots[i]
		w.labels["replacement-report"]++
		if s == connectivity.Ready {
			old := sl.conn
			if len(w.cc.removed) != 1 || w.cc.removed[0] != balancer.SubConn(old) {
				w.fail("C07|C03", "A.swap.remove", "%s: RemoveSubConn calls %v, want exactly the old conn %v", what, w.cc.removed, old)
			}
			if sc.addrs != addrName(w.L) {
				w.fail("C20", "A.swap.addr", "%s: replacement takes over with addresses %q, latest resolved %q", what, sc.addrs, addrName(w.L))
			}
			if !sl.alive {
				for k, h := range w.aff {
					if h == i {
						w.tainted[k] = true
					}
				}
				w.labels["swap-resurrects-dead-slot"]++
				w.rrList = append(w.rrList, i)
				w.rrGen++
				if w.alive()+1 > w.cfg.Max && w.cfg.Min <= w.cfg.Max {
					// the channel comes back into a pool that was re-created (full) meanwhile
					if w.o.Props["C03"] {
						if k := knownFinding("resurrection-after-pool-recreation-exceeds-max"); k != "" {
							if !knownPrinted[k] {
								knownPrinted[k] = true
								fmt.Printf("KNOWN-FINDING: property=C03 %s\n", k)
							}
							w.labels["case-ends-in-a-known-finding"]++
							panic(abortOther{"known-finding"})
						}
					}
					w.fail("C03", "A.size", "%s: the replacement of a channel that had left the pool takes over and makes the pool %d channels, maxSize is %d (%s)", what, w.alive()+1, w.cfg.Max, w.describe())
				}
			}
			if !(sl.alive && sl.st == connectivity.Ready) {
				// the slot becomes READY through the swap: keys come home
				for k := range w.standin {
					if h, ok := w.aff[k]; ok && h == i {
						delete(w.standin, k)
					}
				}
				w.labels["swap-makes-slot-ready"]++
			}
			sl.conn, sl.st, sl.alive = sc, connectivity.Ready, true
			sl.lastResp, sl.de, sl.k, sl.refreshing, sl.repl = time.Now(), 0, sl.k+1, false, nil
			w.applyRemoveProbes(what, old)
			w.labels["swap"]++
			sl.swaps++
			w.anySwap = true
			for _, c := range w.calls {
				if c.slot == i {
					c.afterSwp = true
				}
			}
		}
	case "removed":
		w.labels["removed-conn-report"]++
	case "unknown":
		w.labels["unknown-conn-report"]++
	}
	if role != "repl" || s != connectivity.Ready {
		if len(w.cc.removed) != 0 {
			w.fail("C03", "A.remove", "%s: unexpected RemoveSubConn(%v)", what, w.cc.removed)
		}
	}
	if len(w.cc.created) != 0 {
		w.fail("C03|C07", "A.state.create", "%s: NewSubConn during a state report", what)
	}
	if (role == "removed" || role == "unknown" || (role == "repl" && s != connectivity.Ready)) && len(w.cc.pubs) != 0 {
		w.fail("C04", "A.pub.foreign", "%s: a report for a conn that is not a pool conn caused a publication", what)
	}
	w.checkPub(what, R0)
}

// request builds the request message and the reference key extraction result.
func reqFor(m0 Method, key string, kind int) (msg interface{}, keyOut string, keyErr bool) {
	m := m0
	switch kind {
	case 1:
		return nil, "", true
	case 3:
		return (*Msg)(nil), "", true
	case 4:
		return "just a string", "", true
	case 5:
		// the locator names a field promoted from a nil embedded message pointer
		return &EmbMsg{Other: "o"}, "", true
	case 6, 7:
		// two request types from different packages that print as "twin.Req" and keep the key at different positions
		var m interface{} = &twina.Req{Key: key, Other: "decoy-a"}
		if kind == 7 {
			m = &twinb.Req{Other: "decoy-b", Num: 7, Key: key}
		}
		if m0.Bad || m0.Path != "key" {
			return m, "", true
		}
		return m, key, false
	}
	if kind == 2 {
		msg = &Msg{}
	} else {
		msg = &Msg{Key: key, Keys: []string{key, "other"}, Num: 7, Sub: &Msg{Key: key}}
	}
	mm := msg.(*Msg)
	switch {
	case m.Bad:
		return msg, "", true
	case m.Path == "key":
		return msg, mm.Key, false
	case m.Path == "keys":
		if len(mm.Keys) == 0 {
			return msg, "", true
		}
		return msg, mm.Keys[0], false
	case m.Path == "sub.key":
		if mm.Sub == nil {
			return msg, "", true
		}
		return msg, mm.Sub.Key, false
	}
	return msg, "", false
}

func (w *world) methodCfg(m Method) Method {
	if w.cfg.Methods == "none" {
		return Method{Name: m.Name}
	}
	return m
}

func (w *world) opPick(op *Op) {
	if len(w.pubs) == 0 {
		return
	}
	pi := len(w.pubs) - 1
	if op.Pk > 0 {
		pi = (op.Pk - 1) % len(w.pubs)
	}
	stale := pi != len(w.pubs)-1
	p := w.pubs[pi]
	m := w.methodCfg(Methods[((op.M%len(Methods))+len(Methods))%len(Methods)])
	key := Keys[((op.Key%len(Keys))+len(Keys))%len(Keys)]
	if op.KeyOf != 0 && len(w.calls) > 0 {
		// a key whose home is the channel of the most recent outstanding call (steers keyed calls to that channel)
		target := w.calls[len(w.calls)-1].slot
		for _, k := range Keys {
			if h, ok := w.aff[k]; ok && h == target && k != "" {
				key = k
				w.labels["pick-keyed-to-channel-of-last-call"]++
				break
			}
		}
	}
	base := context.Background()
	hasIC := !op.NoIC
	req, refKey, refErr := reqFor(m, key, op.Msg)
	reply := &Msg{}
	if hasIC {
		base = ictx(base, req, reply)
	}
	var ctx context.Context
	var cancel context.CancelFunc
	if op.Exp {
		ctx, cancel = context.WithDeadline(base, time.Now().Add(-time.Second))
		w.labels["pick-with-ended-context"]++
	} else if op.Late > 0 {
		ctx, cancel = context.WithCancel(base)
		dl := time.Now()
		if op.Late%2 == 0 {
			dl = dl.Add(-time.Millisecond)
		}
		ctx = lateCtx{ctx, dl}
		w.labels["pick-with-deadline-reached-but-context-not-done"]++
	} else if op.DlMs > 0 {
		ctx, cancel = context.WithTimeout(base, time.Duration(op.DlMs)*time.Millisecond)
	} else {
		ctx, cancel = context.WithCancel(base)
	}
	what := fmt.Sprintf("Pick(%s key=%q msg=%d ic=%v stale=%v)", m.Name, key, op.Msg, hasIC, stale)
	pp := &pendingPick{ch: make(chan pickOut, 1), what: what, m: m, ctx: ctx, cancel: cancel, hasIC: hasIC, stale: stale, pub: p, assigned: -1, issuedAt: time.Now(), opKey: key}
	keyed := hasIC && (m.Cmd == "BOUND" || m.Cmd == "UNBIND")
	if keyed && !refErr {
		pp.key = refKey
	}
	isRR := m.Cmd == "BIND" && w.cfg.RR && p.state != connectivity.TransientFailure && len(p.snap) > 0 && !(keyed && refErr)
	rotEmpty := isRR && len(w.rrList) == 0
	if isRR {
		w.rrIssue(pp)
	}
	if op.Msg != 0 {
		w.labels[fmt.Sprintf("pick-hostile-message-%d", op.Msg)]++
	}
	if !hasIC {
		w.labels["pick-without-interceptor-context"]++
	}
	if stale && w.agg() != connectivity.Ready {
		w.labels["pick-on-stale-picker-pool-not-ready"]++
	}
	if len(w.pend) > 0 {
		w.labels["pick-while-bind-blocked"]++
	}
	R0 := w.readySet()
	w.resetObs()
	go func() {
		var out pickOut
		defer func() {
			if r := recover(); r != nil {
				out.panicv, out.stack = r, string(debug.Stack())
			}
			out.at = time.Now()
			pp.ch <- out
		}()
		out.res, out.err = p.picker.Pick(balancer.PickInfo{Ctx: ctx, FullMethodName: m.Name})
	}()
	synctest.Wait()
	if rotEmpty {
		// a superseded picker with READY channels while every channel has left the pool: the library may re-create a
		// channel for the rotation ("to re-create an emptied pool")
		w.labels["rr-bind-with-empty-rotation"]++
		for _, sc := range w.cc.created {
			w.addSlot(sc)
			w.labels["pool-recreated"]++
		}
		w.cc.created = nil
	}
	select {
	case out := <-pp.ch:
		if rotEmpty && out.panicv == nil {
			if out.err == nil {
				if pl := w.slotOfConn(out.res.SubConn); pl >= 0 {
					w.slots[pl].inflight++
					w.ncalls++
					w.calls = append(w.calls, &callrec{id: w.ncalls, slot: pl, done: out.res.Done, m: m, key: key, ctx: ctx, cancel: cancel, start: out.at, hasIC: hasIC, stale: stale, bindReqKey: key})
				}
			}
			w.checkPub(what, R0)
			return
		}
		w.pickReturned(pp, out, keyed, refErr, R0, true)
	default:
		w.pend = append(w.pend, pp) // first of all: whatever happens next, the end of the case cancels it
		if os.Getenv("VERIF_DEBUG_BUBBLE") != "" {
			buf := make([]byte, 1<<20)
			buf = buf[:runtime.Stack(buf, true)]
			for _, g := range strings.Split(string(buf), "\n\n") {
				if strings.Contains(g, "getSubConnRoundRobin") {
					fmt.Fprintf(os.Stderr, "BLOCKED PICK at %s (%s):\n%s\n\n", what, w.describe(), g)
				}
			}
		}
		if isRR && w.alive() > 0 && w.allAliveReady() {
			w.fail("C09|C06", "A'.deadwait", "%s: the round-robin BIND is blocked although every channel of the pool is READY (%s)", what, w.describe())
		}
		if !isRR {
			w.fail("C06", "A.pick.blocks", "%s: the pick is blocked although it is not a round-robin BIND", what)
		}
		if pp.assigned >= 0 && w.ready(pp.assigned) {
			w.fail("C09|C06", "A'.blocked", "%s: round-robin BIND assigned to READY slot %d is blocked", what, pp.assigned)
		}
		w.labels["rr-bind-blocked"]++
		w.checkPub(what, R0)
	}
}

// rrIssue assigns the model's slot to a round-robin BIND pick at issue time.
func (w *world) rrIssue(pp *pendingPick) {
	n := len(w.rrList)
	if n == 0 {
		// the rotation is empty (every channel left the pool); this BIND still moves the cursor
		w.rrEver, w.rrSynced = true, false
		return
	}
	if !w.rrSynced || w.rrGenSeen != w.rrGen {
		if !w.rrEver {
			// fresh balancer: the very first assignment is the first channel
			w.rrEver, w.rrSynced, w.rrPos, w.rrGenSeen = true, true, 0, w.rrGen
			pp.assigned = w.rrList[0]
			return
		}
		// composition changed: this assignment re-synchronises the cursor
		w.rrSynced, w.rrGenSeen, w.rrLastUns = false, w.rrGen, pp
		w.labels["rr-resync"]++
		return
	}
	w.rrEver = true
	w.rrPos = (w.rrPos + 1) % n
	pp.assigned = w.rrList[w.rrPos]
}

// rrLearn is called when an unsynchronised BIND pick returned on slot s.
func (w *world) rrLearn(pp *pendingPick, s int) {
	if w.rrSynced || w.rrGenSeen != w.rrGen || w.rrLastUns != pp {
		return
	}
	// only the most recently issued unsynchronised pick can re-synchronise (nothing was issued after it)
	for k, x := range w.rrList {
		if x == s {
			w.rrSynced, w.rrPos, w.rrLastUns = true, k, nil
			return
		}
	}
}

func (w *world) pickReturned(pp *pendingPick, out pickOut, keyed, refErr bool, R0 []int, immediate bool) {
	what, p, m, stale := pp.what, pp.pub, pp.m, pp.stale
	if out.panicv != nil {
		if w.o.Props["C06"] && !w.o.Props["C05"] && w.cfgFixed {
			// the panic itself is C05's business; C06 asks whether the call left a lock behind: the probe (a balancer
			// callback and a plain pick) must still return - if not, the watchdog reports the hang
			w.labels["lock-probe-after-a-panic"]++
			CurOp.Store(what + " panicked; lock probe")
			func() {
				defer func() { recover() }()
				w.b.UpdateSubConnState(&fsc{id: 2000, foreign: true}, balancer.SubConnState{ConnectivityState: connectivity.Connecting})
			}()
		}
		w.fail("C05", "panic", "%s panicked: %v\n%s", what, out.panicv, out.stack)
	}
	res, err := out.res, out.err
	placed := -1
	if err == nil {
		placed = w.slotOfConn(res.SubConn)
		if placed < 0 {
			w.fail("C02|C07|C01", "A.pick.7", "%s: placed on %v which is no channel's current connection (%s)", what, res.SubConn, w.describe())
		}
		if res.Done == nil {
			w.fail("C02", "A.pick.7", "%s: placement without completion callback", what)
		}
	}
	if traceOn {
		fmt.Fprintf(os.Stderr, "TRACE step %d %s -> placed=%d err=%v | %s\n", w.step, what, placed, err, w.describe())
	}
	// rule 1
	if (err == balancer.ErrTransientFailure) != (p.state == connectivity.TransientFailure) {
		w.fail(w.pickerProp(), "A.pick.1", "%s: picker published with %v returned err=%v", what, p.state, err)
	}
	grew := false
	key := pp.key
	inSnap := func(x int) bool {
		for _, i := range p.snap {
			if i == x {
				return true
			}
		}
		return false
	}
	minInflight := func() int {
		mn := 1 << 30
		for _, i := range p.snap {
			if w.slots[i].inflight < mn {
				mn = w.slots[i].inflight
			}
		}
		return mn
	}
	isRR := m.Cmd == "BIND" && w.cfg.RR
	switch {
	case p.state == connectivity.TransientFailure:
	case len(p.snap) == 0:
		if err != balancer.ErrNoSubConnAvailable {
			w.fail(w.pickerProp(), "A.pick.2", "%s: picker with an empty READY snapshot returned placed=%d err=%v", what, placed, err)
		}
	case keyed && refErr:
		w.labels["key-extraction-error"]++
		if err == nil {
			// "yields an error or is ignored": a placement that ignores the key is tolerated
			w.labels["key-extraction-error-ignored"]++
			grew = len(w.cc.created) > 0
		}
	case isRR:
		w.rrReturned(pp, placed, err)
	default:
		h, bound := w.aff[key]
		isKeyed := keyed && key != "" && bound
		switch {
		case isKeyed && w.tainted[key]:
			grew = len(w.cc.created) > 0
			w.labels["tainted-key-pick"]++
		case isKeyed:
			if w.ready(h) {
				if err == nil && placed != h {
					w.fail("C01|C08", "A.pick.5a", "%s: key %q is bound to slot %d (READY) but the call was placed on slot %d", what, key, h, placed)
				}
				if !stale && err != nil {
					w.fail("C01|C08", "A.pick.5b", "%s: key %q home slot %d is READY, the most recent picker returned %v", what, key, h, err)
				}
				w.labels["bound-pick-home-ready"]++
				if w.slots[h].k > 0 || w.anySwapOn(h) {
					w.labels["bound-pick-after-swap"]++
				}
				if stale {
					w.labels["bound-pick-stale-picker"]++
				}
				if w.slots[h].inflight >= w.cfg.WM {
					w.labels["bound-pick-home-saturated"]++
				}
			} else if !w.cfg.Fallback {
				if err != balancer.ErrNoSubConnAvailable {
					w.fail("C01", "A.pick.5c", "%s: key %q home slot %d not READY, fallback off: placed=%d err=%v", what, key, h, placed, err)
				}
				w.labels["bound-pick-home-notready"]++
			} else if !stale {
				if err != nil || !w.ready(placed) {
					w.fail("C08", "A.pick.5d", "%s: key %q home %d not READY, READY slots %v: placed=%d err=%v", what, key, h, w.readySet(), placed, err)
				}
				if f, ok := w.standin[key]; ok {
					if placed != f {
						w.fail("C08", "A.pick.5e", "%s: stand-in for %q was slot %d (still READY), now slot %d", what, key, f, placed)
					}
					w.labels["standin-reused"]++
					if w.slots[f].swaps > 0 {
						w.labels["standin-reused-after-swap"]++
					}
				} else {
					w.standin[key] = placed
					w.labels["standin-chosen"]++
				}
				if minInflight() >= w.cfg.WM {
					w.labels["fallback-saturated"]++
				}
			} else {
				w.labels["fallback-stale-picker"]++
				grew = len(w.cc.created) > 0 // unconstrained
				if err == nil {
					w.labels["fallback-stale-placed"]++
				}
			}
		default:
			loadProp := "C02|C03" // an unknown key is routed like no key (C01: "after the UNBIND, K is routed like an unknown key")
			if keyed && key != "" {
				w.labels["unknown-key-pick"]++
				loadProp = "C02|C03|C01"
			}
			mn := minInflight()
			switch {
			case mn < w.cfg.WM:
				if len(w.cc.created) > 0 {
					w.fail("C03|C02", "A.pick.6a.grow", "%s: a channel was added although a READY channel is below the watermark (min load %d < %d) (%s)", what, mn, w.cfg.WM, w.describe())
				}
				if err != nil || !inSnap(placed) || w.slots[placed].inflight != mn {
					w.fail(loadProp, "A.pick.6a", "%s: min load %d < watermark %d: placed=%d err=%v snapshot=%v loads=%s", what, mn, w.cfg.WM, placed, err, p.snap, w.describe())
				}
				if len(p.snap) >= 2 {
					w.labels["least-loaded-of-several"]++
				}
			case w.alive() < w.cfg.Max && w.liveRoom():
				// the picker (an old one) finds its own channels saturated, but a READY channel of the pool has room: no
				// channel is added ("grows only when saturated": every READY channel at or above the watermark), the call is
				// placed on the least busy channel the picker knows
				if len(w.cc.created) > 0 {
					w.fail("C03", "A.pick.6e.grow", "%s: a channel was added by a call through an old picker although a READY channel of the pool is below the watermark (%s)", what, w.describe())
				}
				if err != nil || !inSnap(placed) || w.slots[placed].inflight != mn {
					w.fail(loadProp, "A.pick.6e", "%s: old picker saturated, pool has room: placed=%d err=%v snapshot=%v (%s)", what, placed, err, p.snap, w.describe())
				}
				w.labels["old-picker-saturated-while-the-pool-has-room"]++
			case w.alive() < w.cfg.Max:
				if err != balancer.ErrNoSubConnAvailable {
					w.fail("C03", "A.pick.6b", "%s: saturated below maxSize: placed=%d err=%v (want: told to wait)", what, placed, err)
				}
				expect := !w.idleOrConnecting() && !w.factoryRefuses()
				if expect != (len(w.cc.created) == 1) {
					w.fail("C03", "A.pick.6c", "%s: saturated below maxSize: growth expected=%v, conns created=%d (%s)", what, expect, len(w.cc.created), w.describe())
				}
				grew = true
				w.labels["saturated-below-max"]++
				if expect {
					w.labels["growth"]++
				}
			default:
				if err != nil || !inSnap(placed) || w.slots[placed].inflight != mn {
					w.fail(loadProp, "A.pick.6d", "%s: saturated at maxSize: placed=%d err=%v snapshot=%v (%s)", what, placed, err, p.snap, w.describe())
				}
				w.labels["saturated-at-max"]++
			}
		}
	}
	if !grew && len(w.cc.created) != 0 && immediate {
		w.fail("C03|C07", "A.pick.create", "%s: unexpected NewSubConn", what)
	}
	if immediate {
		for _, sc := range w.cc.created {
			if sc.addrs != addrName(w.L) {
				w.fail("C20", "A.growth.addr", "%s: growth conn created with addresses %q, latest resolved %q", what, sc.addrs, addrName(w.L))
			}
			if sc.connects == 0 {
				w.fail("C20", "A.growth.connect", "%s: growth conn not asked to connect", what)
			}
			w.addSlot(sc)
			if w.alive() > w.cfg.Max && w.cfg.Min <= w.cfg.Max {
				w.fail("C03", "A.size", "%s: pool size %d > maxSize %d", what, w.alive(), w.cfg.Max)
			}
		}
		if len(w.cc.removed) != 0 {
			w.fail("C03", "A.remove", "%s: RemoveSubConn during a pick", what)
		}
	}
	if err == nil {
		sl := w.slots[placed]
		sl.inflight++
		w.ncalls++
		w.calls = append(w.calls, &callrec{id: w.ncalls, slot: placed, done: res.Done, m: m, key: key, ctx: pp.ctx, cancel: pp.cancel, start: out.at, hasIC: pp.hasIC, stale: stale, bindReqKey: pp.opKey})
		w.labels["placement"]++
		if stale {
			w.labels["stale-picker-placement"]++
		}
		if !sl.alive {
			w.labels["placement-on-dead-slot"]++
		}
	} else {
		pp.cancel()
		w.labels["pick-error"]++
	}
	if immediate {
		w.checkPub(what, R0)
	}
}

func (w *world) anySwapOn(i int) bool { return w.slots[i].swaps > 0 }

// liveRoom: some READY channel of the pool (whether the picker in use knows it or not) is below the stream watermark.
func (w *world) liveRoom() bool {
	for i, s := range w.slots {
		if s.alive && w.ready(i) && s.inflight < w.cfg.WM {
			return true
		}
	}
	return false
}

// rrReturned applies Appendix A' to a returned round-robin BIND pick.
func (w *world) rrReturned(pp *pendingPick, placed int, err error) {
	what := pp.what
	if err == balancer.ErrNoSubConnAvailable && w.alive() == 0 {
		// every channel has left the pool (and none could be re-created): there is nothing to hand out, the call is told to wait
		w.labels["rr-bind-told-to-wait-pool-is-empty"]++
		return
	}
	if err != nil {
		w.fail("C09", "A'.err", "%s: round-robin BIND returned error %v", what, err)
	}
	ctxEnded := pp.ctx.Err() != nil
	if pp.assigned < 0 {
		w.labels["rr-unsynced-pick"]++
		w.rrLearn(pp, placed)
		if !ctxEnded && !w.ready(placed) {
			w.fail("C09", "A'.ready", "%s: handed slot %d which is not READY although its context has not ended", what, placed)
		}
		return
	}
	if placed != pp.assigned {
		w.fail("C09", "A'.order", "%s: assigned slot %d in creation-order rotation, got slot %d (rotation %v)", what, pp.assigned, placed, w.rrList)
	}
	if !ctxEnded && !w.ready(placed) {
		w.fail("C09", "A'.ready", "%s: handed slot %d which is not READY although its context has not ended", what, placed)
	}
	w.labels["rr-bind-in-order"]++
	if ctxEnded && !w.ready(placed) {
		w.labels["rr-bind-released-by-context"]++
	}
}

// collect gathers round-robin picks that returned meanwhile and checks the ones still blocked.
func (w *world) collect(after string) {
	if len(w.pend) == 0 {
		return
	}
	synctest.Wait()
	w.absorbStray()
	var still []*pendingPick
	for _, pp := range w.pend {
		select {
		case out := <-pp.ch:
			w.labels["rr-bind-released"]++
			if pp.ctx.Err() == nil {
				w.labels["rr-bind-released-by-ready"]++
			}
			w.pickReturned(pp, out, false, false, nil, false)
		default:
			if pp.ctx.Err() != nil {
				// the context ended: the pick must return within one poll period (100 ms) of virtual time
				time.Sleep(101 * time.Millisecond)
				synctest.Wait()
				select {
				case out := <-pp.ch:
					w.labels["rr-bind-released"]++
					w.pickReturned(pp, out, false, false, nil, false)
					continue
				default:
					w.fail("C09|C06", "A'.ctx", "%s: context ended (%v) but the pick is still blocked after %s", pp.what, pp.ctx.Err(), after)
				}
			}
			if w.alive() > 0 && w.allAliveReady() {
				w.fail("C09|C06", "A'.deadwait", "%s: the round-robin BIND is still blocked after %s although every channel of the pool is READY (%s)", pp.what, after, w.describe())
			}
			if pp.assigned >= 0 && w.ready(pp.assigned) {
				w.fail("C09|C06", "A'.release", "%s: assigned slot %d is READY after %s but the pick is still blocked", pp.what, pp.assigned, after)
			}
			still = append(still, pp)
		}
	}
	w.pend = still
}

var deText = context.DeadlineExceeded.Error()

func (w *world) opDone(op *Op) {
	if len(w.calls) == 0 {
		return
	}
	ci := len(w.calls) - 1
	if op.Idx >= 0 {
		ci = op.Idx % len(w.calls)
	} else if -op.Idx <= len(w.calls) {
		ci = len(w.calls) + op.Idx
	}
	w.rcvNext = op.Rcv
	w.doDone(ci, op.Out, op.Rep, op.Reply)
	w.rcvNext = false
}

func (w *world) doDone(ci, outcome, rep int, replyKeys []int) {
	c := w.calls[ci]
	w.calls = append(w.calls[:ci], w.calls[ci+1:]...)
	var err error
	outName := "ok"
	discarded := false
	switch o := ((outcome % 27) + 27) % 27; {
	case o == 25:
		// not a completion at all: gRPC found no ready transport on the picked connection, called Done(DoneInfo{})
		// (nil error, nothing sent or received) and picks again
		discarded, outName = true, "pick-discarded-by-grpc"
	case o >= 6 && o <= 22: // every status code, with a non-standard text
		if c := codes.Code(o - 6); c != codes.OK {
			err, outName = status.Error(c, "status "+c.String()), "status-"+c.String()
			if c == codes.DeadlineExceeded {
				outName = "deadline-other-text"
			}
		}
	case o == 23:
		err, outName = fmt.Errorf("a plain error"), "plain-error"
	case o == 24:
		err, outName = io.EOF, "io-EOF"
	case o == 26:
		// a non-nil error that carries a status with code OK: the call failed all the same
		err, outName = okStatusErr{}, "error-with-status-OK"
	}
	switch ((outcome % 27) + 27) % 27 {
	case 1:
		err, outName = status.Error(codes.Unavailable, "unavailable"), "unavailable"
	case 2:
		err, outName = status.Error(codes.DeadlineExceeded, deText), "deadline-client-text"
	case 3:
		err, outName = status.Error(codes.DeadlineExceeded, "deadline exceeded by the server"), "deadline-other-text"
	case 4:
		err, outName = context.DeadlineExceeded, "raw-context-deadline"
	case 5:
		err, outName = status.Error(codes.Canceled, "context canceled"), "canceled"
	}
	sl := w.slots[c.slot]
	R0 := w.readySet()
	w.resetObs()
	now := time.Now()
	what := fmt.Sprintf("Done(call#%d slot %d %s %s)", c.id, c.slot, c.m.Name, outName)
	// response message for BIND
	if c.m.Cmd == "BIND" && c.hasIC {
		var ks []string
		if rep == 0 {
			ks = []string{c.reqKey()}
		} else {
			ks = []string{}
			for _, k := range replyKeys {
				ks = append(ks, Keys[((k%len(Keys))+len(Keys))%len(Keys)])
			}
		}
		if _, reply, ok := grpcgcp.VerifCtxMsgs(c.ctx); ok {
			if r, ok := reply.(*Msg); ok {
				if len(ks) > 0 {
					r.Key = ks[0]
				}
				r.Keys = ks
				r.Sub = &Msg{Key: r.Key}
				r.Subs = nil
				for _, k := range ks {
					r.Subs = append(r.Subs, &Msg{Key: k})
				}
				if rep == 2 {
					sum := 0
					for _, k := range replyKeys {
						sum += k
					}
					if len(r.Subs) >= 2 && sum%2 == 1 {
						r.Subs = append(r.Subs[:1], append([]*Msg{nil}, r.Subs[1:]...)...)
					} else {
						r.Subs = append(r.Subs, nil)
					}
					c.nilInSubs = true
					if c.m.Path == "subs.key" {
						w.labels["bind-reply-with-a-nil-element-after-good-ones"]++
					}
				}
			}
		}
		c.replyKeys = ks
	}
	func() {
		defer func() {
			if r := recover(); r != nil {
				w.fail("C05", "panic", "%s panicked: %v\n%s", what, r, debug.Stack())
			}
		}()
		// a real attempt sent something; a successful one also received (a discarded pick did neither)
		if w.rcvNext && err != nil && !discarded {
			w.labels["failed-completion-with-bytes-received"]++
		}
		w.completing = c
		c.done(balancer.DoneInfo{Err: err, BytesSent: !discarded, BytesReceived: !discarded && (err == nil || w.rcvNext)})
		w.completing = nil
	}()
	for _, ch := range w.crLate {
		<-ch // the probe completion could only run once the refresh had let go of the channel's lock
		w.labels["create-probe-had-to-wait-for-the-refresh"]++
	}
	w.crLate = nil
	c.cancel()
	if !c.hasIC && c.m.Cmd != "" {
		w.labels["affinity-call-completed-without-interceptor-context"]++
	}
	sl.inflight--
	if sl.inflight < 0 {
		w.fail("C02", "A.done.neg", "%s: model in-flight count negative (harness bug)", what)
	}
	w.labels["completion-"+outName]++
	if c.afterSwp {
		w.labels["completion-after-swap"]++
	}
	if !w.ready(c.slot) {
		w.labels["completion-on-notready-slot"]++
	}
	// detector
	expect := false
	enabled := w.cfg.UdMs > 0 && w.cfg.UdCalls > 0
	if enabled {
		dl, has := c.ctx.Deadline()
		clientDE := outName == "deadline-client-text" && has && !dl.After(now)
		if outName == "deadline-client-text" && !clientDE {
			w.labels["deadline-text-but-deadline-not-reached"]++
		}
		if outName == "deadline-other-text" {
			w.labels["server-side-deadline"]++
		}
		switch {
		case !clientDE:
			sl.lastResp, sl.de, sl.k = now, 0, 0
		case c.start.Before(sl.lastResp):
			w.labels["deadline-call-started-before-last-response"]++
		default:
			sl.de++
			win := new(big.Int).Mul(big.NewInt(w.cfg.UdMs), new(big.Int).Lsh(big.NewInt(1), uint(sl.k)))
			win.Mul(win, big.NewInt(int64(time.Millisecond)))
			since := big.NewInt(int64(now.Sub(sl.lastResp)))
			cmp := since.Cmp(win)
			if sl.de >= w.cfg.UdCalls {
				switch {
				case cmp == 0:
					w.labels["detector-boundary-exact"]++
				case new(big.Int).Sub(since, win).Cmp(big.NewInt(1)) == 0:
					w.labels["detector-boundary+1ns"]++
				case new(big.Int).Sub(win, since).Cmp(big.NewInt(1)) == 0:
					w.labels["detector-boundary-1ns"]++
				}
			}
			if sl.de >= w.cfg.UdCalls && cmp > 0 {
				switch {
				case sl.refreshing:
					w.labels["refresh-suppressed-already-refreshing"]++
				case !sl.alive:
					// the channel has left the pool: a late completion does not bring it back (C03: the pool may be
					// at its full size again)
					w.labels["no-refresh-for-a-channel-that-left-the-pool"]++
				default:
					expect = true
				}
			}
		}
	}
	attempted := len(w.cc.created) + w.cc.refused
	if !sl.alive && attempted != 0 {
		w.fail("C07|C03", "A.done.departed", "%s: the completion of a call on a channel that has left the pool created a connection (C03: a channel is added only to re-create an emptied pool or by a saturated call; C07: a refresh needs a channel)", what)
	}
	if !enabled && attempted != 0 {
		w.fail("C07", "A.done.disabled", "%s: detection disabled but a completion created a connection", what)
	}
	if expect != (attempted == 1) || attempted > 1 {
		refreshProp := "C07"
		if sl.refreshing && attempted > 0 {
			refreshProp = "C07|C03" // a second replacement for a channel whose refresh is in flight: more than "one extra connection per refreshing channel"
		}
		w.fail(refreshProp, "A.done.refresh", "%s: refresh expected=%v, observed NewSubConn ok=%d refused=%d (deadline calls=%d/%d, k=%d, since last response=%v, window=%dms*2^%d, refreshing=%v)",
			what, expect, len(w.cc.created), w.cc.refused, sl.de, w.cfg.UdCalls, sl.k, now.Sub(sl.lastResp), w.cfg.UdMs, sl.k, sl.refreshing)
	}
	if len(w.cc.created) == 1 {
		sl.refreshing, sl.repl = true, w.cc.created[0]
		w.labels["refresh"]++
		if sl.k > 0 {
			w.labels["refresh-with-backoff"]++
		}
		if sl.repl.connects == 0 {
			w.fail("C07", "A.done.connect", "%s: replacement conn was not asked to connect", what)
		}
		if sl.repl.addrs != addrName(w.L) {
			w.fail("C20", "A.refresh.addr", "%s: replacement created with addresses %q, latest resolved %q", what, sl.repl.addrs, addrName(w.L))
		}
		if !sl.alive {
			w.labels["refresh-of-dead-slot"]++
		}
	} else if expect {
		w.labels["refresh-factory-refused"]++
	}
	if pc := w.crProbed; pc != nil {
		// the probe call ended with success while (or right after) the refresh was being started: one call less on the
		// channel, and a response AFTER the refresh began - the counters start again, the refresh in flight goes on
		w.crProbed = nil
		for i, x := range w.calls {
			if x == pc {
				w.calls = append(w.calls[:i], w.calls[i+1:]...)
				break
			}
		}
		pc.cancel()
		psl := w.slots[pc.slot]
		psl.inflight--
		if enabled {
			psl.lastResp, psl.de, psl.k = time.Now(), 0, 0
		}
		w.labels["create-probe-response"]++
	}
	if discarded && c.hasIC && (c.m.Cmd == "BIND" || c.m.Cmd == "UNBIND") {
		// no call completed: nothing is bound or unbound. (The library cannot tell this from a success - open known finding.)
		w.discardedAff = true
		w.labels["discarded-pick-of-a-BIND-or-UNBIND-call"]++
	}
	if err == nil && c.hasIC && !discarded {
		switch c.m.Cmd {
		case "BIND":
			for _, k := range c.boundKeys() {
				if k == "" {
					continue
				}
				if _, ok := w.aff[k]; !ok {
					w.aff[k] = c.slot
					w.labels["key-bound"]++
					if !sl.alive || sl.everDead {
						w.tainted[k] = true
					}
				} else {
					w.labels["bind-of-bound-key"]++
				}
			}
		case "UNBIND":
			if c.key != "" {
				if _, ok := w.aff[c.key]; ok {
					w.labels["key-unbound"]++
				}
				delete(w.standin, c.key)
				delete(w.aff, c.key)
				delete(w.tainted, c.key)
			}
		}
	} else if err != nil && (c.m.Cmd == "BIND" || c.m.Cmd == "UNBIND") {
		w.labels["failed-bind-or-unbind"]++
	}
	if len(w.cc.removed) != 0 {
		w.fail("C03", "A.remove", "%s: RemoveSubConn during a completion", what)
	}
	w.checkPub(what, R0)
}

func (w *world) opAdv(op *Op) {
	d := time.Duration(op.Ns)
	if d < 0 {
		d = -d
	}
	if op.Mode == 1 && len(w.slots) > 0 && w.cfg.UdMs > 0 {
		i := ((op.Idx % len(w.slots)) + len(w.slots)) % len(w.slots)
		if op.Idx < 0 && len(w.calls) > 0 {
			i = w.calls[len(w.calls)-1].slot
		}
		sl := w.slots[i]
		win := new(big.Int).Mul(big.NewInt(w.cfg.UdMs), new(big.Int).Lsh(big.NewInt(1), uint(sl.k)))
		win.Mul(win, big.NewInt(int64(time.Millisecond)))
		if win.IsInt64() && win.Int64() < int64(200*365*24*time.Hour) {
			// the tick before the next op adds 1 ns
			target := sl.lastResp.Add(time.Duration(win.Int64())).Add(time.Duration(op.Eps) - 1)
			d = time.Until(target)
			w.labels["advance-to-detector-boundary"]++
		}
	}
	limit := 10 * time.Second
	if op.Mode == 2 {
		limit = 125 * time.Second // the long-wait composite: minutes of polling are affordable for a few waiting picks
	}
	if len(w.pend) > 0 && d > limit {
		// a blocked round-robin pick polls every 100 ms of virtual time: long jumps would only burn real CPU
		d = limit
		w.labels["advance-capped-while-bind-blocked"]++
	}
	if len(w.pend) > 0 && d >= time.Minute {
		w.labels["bind-waits-a-minute-or-more"]++
	}
	if d > 0 {
		if time.Since(bubbleEpoch())+d > 250*365*24*time.Hour {
			return // keep inside the representable range of time.Duration arithmetic
		}
		time.Sleep(d)
	}
}

var epoch time.Time

// traceOn (env VERIF_TRACE): every pick result is printed (debugging aid for hand-made cases).
var traceOn = os.Getenv("VERIF_TRACE") != ""

func bubbleEpoch() time.Time { return epoch }

func (c *callrec) reqKey() string { return c.bindReqKey }

// Exec runs one case. It must be called inside a synctest bubble.
func Exec(c *Case, o *Opts) (res Result) {
	epoch = time.Now()
	bb := balancer.Get("grpc_gcp")
	cc := &fcc{strict: c.Config.Strict}
	w := &world{c: c, o: o, cc: cc, aff: map[string]int{}, standin: map[string]int{}, tainted: map[string]bool{}, labels: map[string]int{}}
	res.Labels = w.labels
	CurCase.Store(c)
	if c.RmProbe && o.Props["C07"] {
		cc.onRemove = w.removeProbe
	}
	if c.CrProbe && o.Props["C07"] {
		cc.onCreate = w.createProbe
	}
	defer func() {
		InOp.Store(false)
		for _, cl := range w.calls {
			cl.cancel()
		}
		for _, pp := range w.pend {
			pp.cancel()
		}
		if len(w.pend) > 0 {
			// let blocked picks run off so that the bubble can end
			func() {
				defer func() { recover() }()
				time.Sleep(200 * time.Millisecond)
				synctest.Wait()
			}()
		}
		if os.Getenv("VERIF_DEBUG_BUBBLE") != "" {
			buf := make([]byte, 1<<20)
			buf = buf[:runtime.Stack(buf, true)]
			n := 0
			for _, g := range strings.Split(string(buf), "\n\n") {
				if strings.Contains(g, "synctest bubble") {
					n++
					if n > 1 {
						fmt.Fprintf(os.Stderr, "LEFT IN BUBBLE:\n%s\n\n", g)
					}
				}
			}
		}
		if r := recover(); r != nil {
			switch x := r.(type) {
			case failure:
				res.Fail = x.f
			case abortOther:
				res.Aborted = x.prop
				w.labels["aborted_other_property"]++
			default:
				res.Fail = &Fail{Prop: w.activeProp(), Rule: "panic", Step: w.step, Msg: fmt.Sprintf("panic in %v: %v\n%s", CurOp.Load(), r, debug.Stack())}
			}
		}
	}()
	w.b = bb.Build(cc, balancer.BuildOptions{})
	for si := range c.Ops {
		op := &c.Ops[si]
		w.step = si
		res.Steps++
		w.tick()
		CurStep.Store(int64(si))
		CurOp.Store(fmt.Sprintf("step %d %+v", si, *op))
		InOp.Store(true)
		OpCounter.Add(1)
		w.runOp(op)
		OpCounter.Add(1)
		w.collect(op.K)
		if o.Probe && w.cfgFixed {
			w.probe()
		}
		InOp.Store(false)
	}
	w.finish()
	if c.CloseTail && (o.Props["C05"] || o.Props["C06"]) && w.cfgFixed {
		w.closeTail()
	}
	return
}

// closeTail: gRPC closes the balancer when the channel shuts down, but RPCs in flight still complete afterwards and a
// pick may still be running on a picker published earlier. Nothing is compared with the model any more: the calls
// must return and must not panic (C05; the watchdog covers C06).
func (w *world) closeTail() {
	w.step = len(w.c.Ops)
	CurOp.Store("Close and what follows")
	InOp.Store(true)
	defer InOp.Store(false)
	guard := func(what string, f func()) {
		defer func() {
			if r := recover(); r != nil {
				w.fail("C05", "panic", "%s after Close panicked: %v\n%s", what, r, debug.Stack())
			}
		}()
		OpCounter.Add(1)
		f()
	}
	guard("Close", func() { w.b.Close() })
	w.labels["balancer-closed-then-late-calls"]++
	time.Sleep(2 * time.Second) // every deadline of an open call has passed (virtual time)
	for i := len(w.calls) - 1; i >= 0; i-- {
		cl := w.calls[i]
		err := status.Error(codes.DeadlineExceeded, deText)
		if i%3 == 0 {
			err = nil
		}
		guard(fmt.Sprintf("completion of call#%d (%v)", cl.id, err), func() { cl.done(balancer.DoneInfo{Err: err}) })
	}
	w.calls = nil
	n := len(w.pubs)
	for k := 0; k < 3 && k < n; k++ {
		pk := w.pubs[n-1-k].picker
		for _, m := range []string{"/plain", "/bind", "/bound", "/unbind"} {
			ctx, cancel := context.WithTimeout(ictx(context.Background(), &Msg{Key: "k1", Keys: []string{"k1"}}, &Msg{Key: "k1", Keys: []string{"k1"}}), 5*time.Millisecond)
			guard("Pick("+m+")", func() {
				ch := make(chan struct{})
				go func() {
					defer close(ch)
					defer func() {
						if r := recover(); r != nil {
							w.latePanic = fmt.Sprintf("Pick(%s) after Close panicked: %v", m, r)
						}
					}()
					if res, err := pk.Pick(balancer.PickInfo{FullMethodName: m, Ctx: ctx}); err == nil && res.Done != nil {
						res.Done(balancer.DoneInfo{})
					}
				}()
				time.Sleep(200 * time.Millisecond) // a round-robin BIND may wait for its context
				synctest.Wait()
				<-ch
			})
			cancel()
			if w.latePanic != "" {
				w.fail("C05", "panic", "%s", w.latePanic)
			}
		}
	}
}

// tick advances 1 ns (no two ops share an instant) and steps over deadline ties.
func (w *world) tick() {
	for n := 0; n < 4; n++ {
		time.Sleep(1)
		now := time.Now()
		tie := false
		for _, c := range w.calls {
			if dl, ok := c.ctx.Deadline(); ok && dl.Equal(now) {
				tie = true
			}
		}
		if !tie {
			return
		}
	}
}

func (w *world) runOp(op *Op) {
	if !w.sawResolve && op.K != "resolve" && op.K != "adv" && op.K != "failnew" && op.K != "reserr" {
		// gRPC delivers a resolver update before anything else can reach the balancer
		return
	}
	switch op.K {
	case "resolve":
		w.opResolve(op)
	case "reserr":
		w.opResolverErr(op)
	case "state":
		w.opState(op)
	case "pick":
		w.opPick(op)
	case "done":
		w.opDone(op)
	case "adv":
		w.opAdv(op)
	case "burst":
		// many successful calls of one method in a row (counters that only matter beyond some threshold)
		n := op.N
		if n > 80000 {
			n = 80000
		}
		w.labels["burst"]++
		for i := 0; i < n; i++ {
			before := len(w.calls)
			w.opPick(&Op{K: "pick", M: op.M, Key: op.Key})
			if len(w.calls) == before+1 {
				w.doDone(len(w.calls)-1, 0, 0, nil)
			} else if i > 3 {
				break
			}
		}
	case "rrjump":
		// test device: move the round-robin cursor close to a point where a counter wraps (2^16, 2^31, 2^32); the model
		// re-synchronises on the next assignment and then expects the cycle to go on without a seam
		// (histories of 2^63 and more BIND calls are outside the domain: no value near 2^63 or 2^64 here)
		vals := []uint64{1<<32 - 3, 1<<32 - 2, 1<<31 - 3, 1<<31 - 2, 1<<16 - 2, 1<<32 - 1, 1<<31 - 1, 7}
		if w.b != nil && w.cfgFixed && len(w.pend) == 0 && len(w.slots) > 0 {
			if grpcgcp.VerifSetRRCursor(w.b, vals[((op.N%len(vals))+len(vals))%len(vals)]) {
				w.rrSynced, w.rrLastUns, w.rrEver = false, nil, true
				w.labels["rr-cursor-moved-near-a-wrap-point"]++
			} else {
				w.labels["rr-cursor-hook-unavailable"]++
			}
		}
	case "failnew":
		w.cc.failNew = op.B
		if op.B {
			w.labels["factory-armed-to-fail"]++
		}
	case "cancel":
		if len(w.pend) > 0 {
			i := len(w.pend) - 1
			if op.Idx >= 0 {
				i = op.Idx % len(w.pend)
			}
			w.pend[i].cancel()
			w.labels["blocked-pick-cancelled"]++
		}
	}
}

// probe: a state report for a never-seen conn and a plain pick on the current picker must return
// (they take the balancer lock): "never leaves a lock held".
func (w *world) probe() {
	CurOp.Store(fmt.Sprintf("step %d lock probe", w.step))
	if len(w.foreign) == 0 {
		w.foreign = append(w.foreign, &fsc{id: 1000, foreign: true})
	}
	w.doState(w.foreign[0], connectivity.Connecting)
	w.labels["lock-probe"]++
	if len(w.pend) > 0 {
		w.labels["lock-probe-while-bind-blocked"]++
	}
}

// finish: end-of-case drain for C02 - complete everything, then n picks land on n distinct slots.
func (w *world) finish() {
	w.step = len(w.c.Ops)
	CurOp.Store("end-of-case drain")
	InOp.Store(true)
	defer InOp.Store(false)
	if !w.o.Props["C02"] || !w.cfgFixed || w.cfg.RR {
		return
	}
	for len(w.calls) > 0 {
		w.tick()
		w.doDone(len(w.calls)-1, 0, 0, nil)
	}
	for _, sl := range w.slots {
		if sl.inflight != 0 {
			w.fail("C02", "A.drain.zero", "model count of a slot is %d after completing every call (harness bug)", sl.inflight)
		}
	}
	// make every alive slot READY and republish
	for i, sl := range w.slots {
		if sl.alive && sl.st != connectivity.Ready {
			w.tick()
			w.doState(w.slots[i].conn, connectivity.Ready)
		}
	}
	rs := w.readySet()
	if len(rs) < 2 || len(w.pubs) == 0 || w.cfg.WM < 1 {
		return
	}
	seen := map[int]bool{}
	for range rs {
		w.tick()
		n0 := len(w.calls)
		w.opPick(&Op{K: "pick"})
		if len(w.calls) != n0+1 {
			w.fail("C02", "A.drain.place", "drain: pick on a pool with idle READY channels was not placed")
		}
		s := w.calls[len(w.calls)-1].slot
		if seen[s] {
			w.fail("C02", "A.drain.distinct", "drain: after all calls completed, %d picks did not land on %d distinct channels (slot %d twice): some count did not return to zero", len(rs), len(rs), s)
		}
		seen[s] = true
	}
	w.labels["drain-check"]++
}

// ---- a call started by another goroutine while the library is handing the old connection to RemoveSubConn ----

type rmProbe struct {
	sc  balancer.SubConn
	err error
}

// removeProbe runs inside fcc.RemoveSubConn. A plain pick on the most recently published picker is started on
// another goroutine (the way a concurrent RPC would); it completes at once with success. It is given a short real
// time to finish; if it waits for a lock the calling library code holds, it is joined after the call has returned.
func (w *world) removeProbe(removed balancer.SubConn) {
	var pk balancer.Picker
	if n := len(w.cc.pubs); n > 0 {
		pk = w.cc.pubs[n-1].Picker
	} else if n := len(w.pubs); n > 0 {
		pk = w.pubs[n-1].picker
	}
	if pk == nil || w.cfg.WM < 50 {
		// with a low watermark the extra call could find every channel saturated and make the pool grow, which the
		// model of this step does not expect
		return
	}
	ch := make(chan rmProbe, 1)
	go func() {
		var out rmProbe
		defer func() {
			if r := recover(); r != nil {
				out.err = fmt.Errorf("panic: %v", r)
			}
			ch <- out
		}()
		res, err := pk.Pick(balancer.PickInfo{FullMethodName: "/plain", Ctx: context.Background()})
		out.sc, out.err = res.SubConn, err
		if err == nil && res.Done != nil {
			res.Done(balancer.DoneInfo{})
		}
	}()
	for i := 0; i < 20000; i++ {
		select {
		case r := <-ch:
			w.rmProbes = append(w.rmProbes, r)
			return
		default:
			runtime.Gosched()
		}
	}
	w.rmLate = append(w.rmLate, ch)
}

// createProbe runs inside the fake NewSubConn. When the creation is a refresh started by the completion that is being
// executed, a further open plain call of the same channel is completed with success by another goroutine.
func (w *world) createProbe() {
	c := w.completing
	if c == nil || w.crProbed != nil {
		return
	}
	var pc *callrec
	for _, x := range w.calls {
		if x != c && x.slot == c.slot && (x.m.Cmd == "" || x.m.Cmd == "BOUND") {
			pc = x
			break
		}
	}
	if pc == nil {
		return
	}
	w.crProbed = pc
	ch := make(chan struct{}, 1)
	go func() {
		defer func() {
			if r := recover(); r != nil {
				w.latePanic = fmt.Sprintf("completion started inside NewSubConn panicked: %v", r)
			}
			ch <- struct{}{}
		}()
		pc.done(balancer.DoneInfo{BytesSent: true, BytesReceived: true})
	}()
	for i := 0; i < 20000; i++ {
		select {
		case <-ch:
			return
		default:
			runtime.Gosched()
		}
	}
	w.crLate = append(w.crLate, ch)
}

// applyRemoveProbes evaluates the probes of this step after the library call has returned and the model has
// performed the swap: a call started after RemoveSubConn(old) must not be placed on old; a placed probe is one
// more response on its channel.
func (w *world) applyRemoveProbes(what string, old balancer.SubConn) {
	for _, ch := range w.rmLate {
		r := <-ch
		w.labels["remove-probe-had-to-wait-for-the-callback"]++
		if r.err == nil {
			w.noteProbeResponse(r.sc)
		}
	}
	w.rmLate = nil
	for _, r := range w.rmProbes {
		w.labels["remove-probe"]++
		if r.err != nil {
			w.labels["remove-probe-not-placed"]++
			continue
		}
		if r.sc == old {
			w.fail("C07", "A.swap.order", "%s: a call started while the old connection %v was being handed to RemoveSubConn was placed on that connection (the replacement had not taken over yet)", what, old)
		}
		w.noteProbeResponse(r.sc)
	}
	w.rmProbes = nil
}

func (w *world) noteProbeResponse(sc balancer.SubConn) {
	for _, sl := range w.slots {
		if sl.alive && balancer.SubConn(sl.conn) == sc {
			sl.lastResp, sl.de, sl.k = time.Now(), 0, 0
			w.labels["remove-probe-placed"]++
		}
	}
}

var knownPrinted = map[string]bool{}

// knownFinding returns the text of the open finding id of known_findings.json ("" if it is not listed as open).
func knownFinding(id string) string {
	b, err := os.ReadFile(os.Getenv("VERIF_KNOWN"))
	if err != nil {
		return ""
	}
	var k struct {
		Findings []struct{ Property, Status, ID, What string }
	}
	if json.Unmarshal(b, &k) != nil {
		return ""
	}
	for _, x := range k.Findings {
		if x.ID == id && x.Status == "open" {
			return x.What
		}
	}
	return ""
}
