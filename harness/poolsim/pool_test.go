package poolsim

import (
	"encoding/json"
	"fmt"
	"os"
	"runtime"
	"testing"
	"testing/synctest"
	"time"

	"pgregory.net/rapid"
	"verifharness/hx"
)

func TestMain(m *testing.M) {
	hx.Quiet()
	go watchdog()
	code := m.Run()
	hx.Flush()
	os.Exit(code)
}

// watchdog runs outside every bubble (real time): a library call that does not return within 3 s
// (normal: microseconds) is a hang. The case executed so far is the replay file.
func watchdog() {
	last, since := int64(-1), time.Now()
	for {
		time.Sleep(200 * time.Millisecond)
		n := OpCounter.Load()
		// self-test of the driver's handling of a watchdog stop that is not a hang: $VERIF_TEST_STALL names a marker
		// file; the first process that finds it missing creates it and stops as if a call had hung
		fake := false
		if mf := os.Getenv("VERIF_TEST_STALL"); mf != "" && n > 2000 {
			if _, err := os.Stat(mf); err != nil {
				os.WriteFile(mf, []byte("x"), 0o644)
				fake = true
			}
		}
		if !fake {
			if !InOp.Load() || n != last {
				last, since = n, time.Now()
				continue
			}
			if time.Since(since) < 3*time.Second {
				continue
			}
		}
		c := CurCase.Load()
		step := int(CurStep.Load())
		prop, _ := CurProps.Load().(string)
		buf := make([]byte, 1<<20)
		buf = buf[:runtime.Stack(buf, true)]
		if c != nil {
			cc := *c
			if step+1 < len(cc.Ops) {
				cc.Ops = cc.Ops[:step+1]
			}
			cc.Property = prop
			cc.Failure = &Fail{Prop: prop, Rule: "hang", Step: step, Msg: fmt.Sprintf("library call did not return within 3s of real time during %v", CurOp.Load())}
			hx.WriteReplay(prop, &cc)
		}
		fmt.Printf("HANG property=%s during %v\n%s\n", prop, CurOp.Load(), buf)
		hx.Flush()
		os.Exit(3)
	}
}

type propSpec struct {
	prop    string
	profile string
	props   []string // enabled oracles (default: the property itself)
	probe   bool
	alias   map[string]string
	nontriv func(l map[string]int) bool
}

func pos(l map[string]int, ks ...string) bool {
	for _, k := range ks {
		if l[k] > 0 {
			return true
		}
	}
	return false
}

var specs = map[string]*propSpec{
	"C01": {prop: "C01", profile: "affinity", nontriv: func(l map[string]int) bool {
		return l["bound-pick-home-ready"] > 0 && pos(l, "bound-pick-after-swap", "bound-pick-stale-picker", "bound-pick-home-saturated", "bind-of-bound-key", "key-unbound", "bound-pick-home-notready")
	}},
	"C02": {prop: "C02", profile: "load", nontriv: func(l map[string]int) bool {
		return l["least-loaded-of-several"] > 0 && pos(l, "completion-unavailable", "completion-deadline-client-text", "completion-canceled", "completion-after-swap", "completion-on-notready-slot")
	}},
	"C03": {prop: "C03", profile: "size", nontriv: func(l map[string]int) bool {
		return pos(l, "growth", "saturated-at-max", "pool-recreated")
	}},
	"C04": {prop: "C04", profile: "states", nontriv: func(l map[string]int) bool {
		n := 0
		for _, k := range []string{"published-Ready", "published-Connecting", "published-TransientFailure"} {
			if l[k] > 0 {
				n++
			}
		}
		return n >= 2 && pos(l, "removed-conn-report", "unknown-conn-report", "replacement-report") && pos(l, "swap", "pool-conn-shutdown")
	}},
	"C07": {prop: "C07", profile: "detector", nontriv: func(l map[string]int) bool {
		return l["refresh"] > 0 && pos(l, "detector-boundary-exact", "detector-boundary+1ns", "detector-boundary-1ns", "refresh-with-backoff", "server-side-deadline", "deadline-call-started-before-last-response", "refresh-factory-refused", "refresh-suppressed-already-refreshing")
	}},
	"C08": {prop: "C08", profile: "fallback", nontriv: func(l map[string]int) bool {
		return l["standin-reused"] > 0 && pos(l, "fallback-saturated", "standin-reused-after-swap", "standin-failed", "home-recovered")
	}},
	"C09": {prop: "C09", profile: "rr", nontriv: func(l map[string]int) bool {
		return l["rr-bind-in-order"] >= 4 || pos(l, "rr-bind-released")
	}},
	"C05": {prop: "C05", profile: "hostile", nontriv: func(l map[string]int) bool {
		return pos(l, "key-extraction-error", "foreign-config", "unknown-conn-report", "removed-conn-report", "resolve-factory-refuses", "pick-without-interceptor-context",
			"pick-hostile-message-1", "pick-hostile-message-2", "pick-hostile-message-3", "pick-hostile-message-4", "pick-hostile-message-5", "affinity-call-completed-without-interceptor-context",
			"pick-on-stale-picker-pool-not-ready", "placement-on-dead-slot", "resolve-on-emptied-pool")
	}},
	"C06": {prop: "C06", profile: "hostile", probe: true, nontriv: func(l map[string]int) bool {
		return pos(l, "resolve-factory-refuses", "resolve-on-emptied-pool", "fallback-saturated", "lock-probe-while-bind-blocked", "pick-while-bind-blocked")
	}},
	"C17": {prop: "C17", profile: "cfg", alias: map[string]string{"C01": "C17", "C02": "C17", "C03": "C17"}, nontriv: func(l map[string]int) bool {
		return pos(l, "later-config-ignored", "nil-config-defaults") && pos(l, "growth", "saturated-at-max", "saturated-below-max", "bound-pick-home-ready")
	}},
	"C20": {prop: "C20", profile: "addresses", nontriv: func(l map[string]int) bool {
		return (l["resolve-during-refresh"] > 0 && l["swap"] > 0) || l["growth"] > 0
	}},
}

func runCase(c *Case, o *Opts) Result {
	return Exec(c, o)
}

func (s *propSpec) opts() *Opts {
	o := &Opts{Props: map[string]bool{s.prop: true}, Probe: s.probe, Alias: s.alias}
	for _, p := range s.props {
		o.Props[p] = true
	}
	return o
}

// shrinkCase is a delta-debugging pass over the ops of a failing case. rapid's own shrinking gives
// up when a failure does not reproduce on the first try, and placement among equally loaded
// channels is not deterministic (the library builds the picker's list from a map); this pass
// retries every candidate a few times and only needs "still fails for the same property".
func shrinkCase(c *Case, prop string, run func(*Case) Result) (*Case, *Fail) {
	best := *c
	best.Ops = append([]Op{}, c.Ops...)
	var bestFail *Fail
	budget := 600
	fails := func(cand *Case) *Fail {
		for try := 0; try < 3 && budget > 0; try++ {
			budget--
			if r := run(cand); r.Fail != nil && r.Fail.Prop == prop {
				return r.Fail
			}
		}
		return nil
	}
	if bestFail = fails(&best); bestFail == nil {
		return nil, nil
	}
	// drop everything after the failing step first
	if bestFail.Step+1 < len(best.Ops) {
		cand := best
		cand.Ops = append([]Op{}, best.Ops[:bestFail.Step+1]...)
		if f := fails(&cand); f != nil {
			best, bestFail = cand, f
		}
	}
	for size := len(best.Ops) / 2; size >= 1 && budget > 0; {
		removed := false
		for i := 0; i+size <= len(best.Ops) && budget > 0; {
			cand := best
			cand.Ops = append(append([]Op{}, best.Ops[:i]...), best.Ops[i+size:]...)
			if f := fails(&cand); f != nil {
				best, bestFail, removed = cand, f, true
			} else {
				i += size
			}
		}
		if !removed || size > len(best.Ops) {
			size /= 2
		}
		if size > len(best.Ops) {
			size = len(best.Ops)
		}
	}
	return &best, bestFail
}

func runPool(t *testing.T, s *propSpec) {
	st := hx.For(s.prop)
	CurProps.Store(s.prop)
	o := s.opts()
	finish := func(c *Case, r Result) *Fail {
		if r.Fail != nil {
			st.Failed()
			c.Failure, c.Property = r.Fail, s.prop
			hx.WriteReplay(s.prop, c)
			return r.Fail
		}
		if r.Aborted != "" {
			st.Label("aborted-by-other-property-"+r.Aborted, 1)
		}
		st.Case(r.Steps, r.Labels, s.nontriv(r.Labels), c)
		return nil
	}
	replayOne := func(path string) {
		var c Case
		if err := hx.Load(path, &c); err != nil {
			t.Fatal(err)
		}
		c.Failure = nil
		var r Result
		synctest.Test(t, func(t *testing.T) { r = runCase(&c, o) })
		if f := finish(&c, r); f != nil {
			t.Fatalf("%s: %v", path, f)
		}
	}
	if p := hx.ReplayIn(); p != "" {
		replayOne(p)
		return
	}
	for _, p := range hx.Corpus(s.prop) {
		replayOne(p)
		st.Label("corpus-replayed", 1)
	}
	prof := Profiles[s.profile]
	shrunk := false
	rapid.Check(t, func(rt *rapid.T) {
		c := GenCase(rt, prof)
		var r Result
		rapid.SyncTest(rt, func(rt *rapid.T) { r = runCase(c, o) })
		if r.Fail != nil && shrunk {
			rt.Fatalf("%v", r.Fail) // the minimal trace has been written already; let rapid finish its own shrinking
		}
		if r.Fail != nil {
			shrunk = true
			finish(c, r) // writes the unshrunk trace first
			min, mf := shrinkCase(c, s.prop, func(cc *Case) Result {
				var rr Result
				rapid.SyncTest(rt, func(*rapid.T) { rr = runCase(cc, o) })
				return rr
			})
			if min != nil {
				min.Failure, min.Property = mf, s.prop
				hx.WriteReplay(s.prop, min)
				st.Label("shrunk-ops-from", len(c.Ops))
				st.Label("shrunk-ops-to", len(min.Ops))
				rt.Fatalf("%v (trace shrunk from %d to %d ops)", mf, len(c.Ops), len(min.Ops))
			}
			rt.Fatalf("%v", r.Fail)
		}
		finish(c, r)
	})
}

func TestC01(t *testing.T)     { runPool(t, specs["C01"]) }
func TestC02(t *testing.T)     { runPool(t, specs["C02"]) }
func TestC03(t *testing.T)     { runPool(t, specs["C03"]) }
func TestC04(t *testing.T)     { runPool(t, specs["C04"]) }
func TestC05(t *testing.T)     { runPool(t, specs["C05"]) }
func TestC06(t *testing.T)     { runPool(t, specs["C06"]) }
func TestC07(t *testing.T)     { runPool(t, specs["C07"]) }
func TestC17Pool(t *testing.T) { runPool(t, specs["C17"]) }
func TestC08(t *testing.T)     { runPool(t, specs["C08"]) }
func TestC09(t *testing.T)     { runPool(t, specs["C09"]) }
func TestC20(t *testing.T)     { runPool(t, specs["C20"]) }

// TestAllOracles runs every profile with every oracle enabled (development aid; not registered).
func TestAllOracles(t *testing.T) {
	for name, prof := range Profiles {
		o := &Opts{Props: map[string]bool{}}
		for _, p := range []string{"C01", "C02", "C03", "C04", "C05", "C06", "C07", "C08", "C09", "C17", "C20"} {
			o.Props[p] = true
		}
		total := map[string]int{}
		t.Run(name, func(t *testing.T) {
			rapid.Check(t, func(rt *rapid.T) {
				c := GenCase(rt, prof)
				var r Result
				rapid.SyncTest(rt, func(rt *rapid.T) { r = runCase(c, o) })
				if r.Fail != nil {
					b, _ := json.Marshal(c)
					rt.Fatalf("%v\n%s", r.Fail, b)
				}
				for k, v := range r.Labels {
					total[k] += v
				}
			})
			b, _ := json.MarshalIndent(total, "", " ")
			t.Logf("%s", b)
		})
	}
}
