// Package poolsim drives the grpc_gcp balancer (channel pool) through its public balancer API
// against a fake balancer.ClientConn inside a testing/synctest bubble and compares everything
// the fake observes, and everything picks return, with the reference model of DESIGN.md
// Appendix A. Cases are plain data (Case), shared by rapid, the corpus and replay files.
package poolsim

import (
	"context"
	"errors"
	"fmt"
	"hash/crc32"
	"strings"
	"time"

	"github.com/GoogleCloudPlatform/grpc-gcp-go/grpcgcp"
	"google.golang.org/grpc"
	"google.golang.org/grpc/attributes"
	"google.golang.org/grpc/balancer"
	"google.golang.org/grpc/connectivity"
	"google.golang.org/grpc/resolver"
	"google.golang.org/grpc/serviceconfig"
)

// Config is the pool configuration of a case (zero values mean "absent").
type Config struct {
	Min      int    `json:"minSize"`
	Max      int    `json:"maxSize"`
	WM       int    `json:"watermark"`
	Fallback bool   `json:"fallback"`
	UdMs     int64  `json:"udMs"`
	UdCalls  int    `json:"udCalls"`
	RR       bool   `json:"roundRobin"`
	Strict   bool   `json:"strictFactory"` // fake ClientConn refuses empty address lists (as grpc 1.56.3 does)
	NoPool   bool   `json:"noChannelPool"` // ApiConfig without channelPool section
	Methods  string `json:"methods"`       // "std" (default) or "none"
}

// Op is one step of a history. Every selector is reduced modulo the current population, so any
// subsequence of a history is executable.
type Op struct {
	K string `json:"k"` // resolve | reserr | state | pick | done | adv | failnew | cancel | burst

	Addrs int  `json:"addrs,omitempty"` // resolve: index into addrSets (0=A 1=B 2=C 3=empty 4..8=variants that differ only in attributes / server name / metadata)
	Cfg   int  `json:"cfg,omitempty"`   // resolve: 0=case config 1=nil 2=foreign type 3=alternative config
	SC    bool `json:"sc,omitempty"`    // resolve: the resolver result also carries a (non-nil) service config parse result

	Sel   int  `json:"sel,omitempty"`          // state: 0=pool slot 1=replacement 2=removed conn 3=never-seen conn 4=replacement of the home slot of Key 5=home slot of Key 6=stand-in slot of Key 7=channel of the outstanding call Idx 8=pool connection of a channel whose refresh is in flight
	Idx   int  `json:"idx,omitempty"`          // state/adv: index; done/cancel: call index (-1 = most recent)
	St    int  `json:"st,omitempty"`           // state: connectivity.State value
	Pk    int  `json:"pk,omitempty"`           // pick: 0 = most recent picker, n>0 = stale picker (n-1) mod population
	M     int  `json:"m,omitempty"`            // pick: method index into Methods
	Key   int  `json:"key,omitempty"`          // pick: request key index into Keys
	KeyOf int  `json:"keyof,omitempty"`        // pick: !=0: use a key bound to the channel of the most recent outstanding call, if there is one
	Msg   int  `json:"msg,omitempty"`          // pick: 0 normal, 1 nil message, 2 empty list / empty key, 3 nil pointer message, 4 non-struct message, 5 struct with a nil embedded message pointer, 6 / 7 request of one of two types that print as "twin.Req" (different packages, key at different positions)
	NoIC  bool `json:"noic,omitempty"`         // pick: context without the interceptor value
	DlMs  int  `json:"dlms,omitempty"`         // pick: deadline in ms (0 = none)
	Late  int  `json:"lateDeadline,omitempty"` // pick: 1 the context reports a deadline equal to now, 2 one in the past, and is not done (a context's timer may run late; custom contexts)
	Exp   bool `json:"expired,omitempty"`      // pick: the context has already ended when the pick is issued (deadline in the past)

	Out   int   `json:"out,omitempty"`           // done: 0 ok 1 Unavailable 2 client-side DEADLINE_EXCEEDED text 3 DEADLINE_EXCEEDED other text 4 raw context.DeadlineExceeded 5 Canceled 6..22 status code (n-6) 23 plain error 24 io.EOF 25 the pick is discarded by gRPC 26 an error whose GRPCStatus() reports OK
	Rcv   bool  `json:"bytesReceived,omitempty"` // done with an error outcome: DoneInfo.BytesReceived is set all the same (something arrived before the call failed)
	Rep   int   `json:"rep,omitempty"`           // done: 0 = the response of a BIND carries the request's key, 1 = it carries Reply (possibly empty)
	Reply []int `json:"reply,omitempty"`         // done: keys carried by the response of a BIND when Rep=1

	Ns   int64 `json:"ns,omitempty"`   // adv: nanoseconds
	Mode int   `json:"mode,omitempty"` // adv: 0 = Ns; 1 = to the detector boundary of slot Idx (+Eps ns); 2 = Ns, with the long cap (125 s instead of 10 s) while a BIND is waiting
	Eps  int   `json:"eps,omitempty"`
	B    bool  `json:"b,omitempty"` // failnew
	N    int   `json:"n,omitempty"` // burst: number of pick+ok-completion pairs of method M with key Key
}

// Case is a complete history with its configuration.
type Case struct {
	Property  string `json:"property,omitempty"`
	Profile   string `json:"profile,omitempty"`
	Config    Config `json:"config"`
	Alt       Config `json:"altConfig"`
	Ops       []Op   `json:"ops"`
	CloseTail bool   `json:"closeTail,omitempty"`   // after the history the balancer is closed, then the calls still open complete and a few calls are started on the last pickers (only "no panic, returns")
	CrProbe   bool   `json:"createProbe,omitempty"` // while the library is inside NewSubConn for a refresh (started by a completion), another goroutine completes a further open plain call of that channel with success: it counts as a response, after the refresh has started
	RmProbe   bool   `json:"removeProbe,omitempty"` // a plain call is started by another goroutine at the moment the library hands a connection to RemoveSubConn
	Failure   *Fail  `json:"failure,omitempty"`
}

// Fail describes an oracle failure.
type Fail struct {
	Prop string `json:"property"`
	Rule string `json:"rule"`
	Step int    `json:"step"`
	Msg  string `json:"message"`
}

func (f *Fail) Error() string {
	return fmt.Sprintf("%s rule %s at step %d: %s", f.Prop, f.Rule, f.Step, f.Msg)
}

// Keys is the key alphabet ("" means "no key").
var Keys = []string{"k1", "k2", "k3", "k4", "", "k5", "k6", "k7", "k8", "k9", "a-much-longer-affinity-key/with.dots:and-unicode-ключ-0123456789012345678901234567890123456789", "K1"}

// Keys 12.. are pairs (12,13), (14,15), ... that collide under a common string hash - 32-bit FNV-1a, 32-bit FNV-1,
// CRC-32 (IEEE), the 31-multiplier hash ("Aa"/"BB"), 64-bit FNV-1a truncated to 32 bits - found by a
// birthday search: a summary structure keyed by such a hash must not confuse the two keys of a pair.
func init() {
	fnv1a := func(s string) uint32 {
		h := uint32(2166136261)
		for i := 0; i < len(s); i++ {
			h ^= uint32(s[i])
			h *= 16777619
		}
		return h
	}
	fnv1 := func(s string) uint32 {
		h := uint32(2166136261)
		for i := 0; i < len(s); i++ {
			h *= 16777619
			h ^= uint32(s[i])
		}
		return h
	}
	fnv64lo := func(s string) uint32 {
		h := uint64(14695981039346656037)
		for i := 0; i < len(s); i++ {
			h ^= uint64(s[i])
			h *= 1099511628211
		}
		return uint32(h)
	}
	java := func(s string) uint32 {
		h := uint32(0)
		for i := 0; i < len(s); i++ {
			h = 31*h + uint32(s[i])
		}
		return h
	}
	// found once by a birthday search over "sessions/<letter><n>"; checked here
	for _, hp := range []struct {
		h    func(string) uint32
		a, b string
	}{{fnv1a, "sessions/a1079599", "sessions/a1262382"}, {fnv1, "sessions/b1049599", "sessions/b1212382"},
		{func(s string) uint32 { return crc32.ChecksumIEEE([]byte(s)) }, "sessions/c29685295", "sessions/c32060020"},
		{java, "sessions/Aa", "sessions/BB"}, {fnv64lo, "sessions/d800006", "sessions/d1157020"}} {
		if hp.a == hp.b || hp.h(hp.a) != hp.h(hp.b) {
			panic("harness: keys " + hp.a + " and " + hp.b + " do not collide")
		}
		Keys = append(Keys, hp.a, hp.b)
	}
}

// HashPairs is the number of colliding key pairs appended to Keys (pair i is Keys[12+2i], Keys[13+2i]).
const HashPairs = 5

// Method describes one configured (or unconfigured) method name.
type Method struct {
	Name    string
	Cmd     string // "", BIND, BOUND, UNBIND
	Path    string
	List    bool   // locator names the repeated field
	Bad     bool   // locator does not resolve to a string
	AliasOf string // listed as a further name in the method entry of AliasOf
	Num     int    // != 0: the entry's affinity command is written as this number (an enum value unknown to this version); Cmd is ""
}

// Methods is the method table of the standard configuration.
var Methods = []Method{
	{Name: "/plain"},
	{Name: "/bind", Cmd: "BIND", Path: "key"},
	{Name: "/bound", Cmd: "BOUND", Path: "key"},
	{Name: "/unbind", Cmd: "UNBIND", Path: "key"},
	{Name: "/bindl", Cmd: "BIND", Path: "keys", List: true},
	{Name: "/boundl", Cmd: "BOUND", Path: "keys", List: true},
	{Name: "/boundsub", Cmd: "BOUND", Path: "sub.key"},
	{Name: "/badloc", Cmd: "BOUND", Path: "nope.x", Bad: true},
	{Name: "/intloc", Cmd: "UNBIND", Path: "num", Bad: true},
	{Name: "/unknown"},
	{Name: "/bound2", Cmd: "BOUND", Path: "key", AliasOf: "/bound"},
	{Name: "/bind2", Cmd: "BIND", Path: "key", AliasOf: "/bind"},
	{Name: "/unbind2", Cmd: "UNBIND", Path: "key", AliasOf: "/unbind"},
	{Name: "/noaff"}, // listed in a method entry that has no affinity section: a plain method
	// more locators that do not resolve (underscores in odd places, empty segments)
	{Name: "/badloc_", Cmd: "BOUND", Path: "_", Bad: true},
	{Name: "/badlockey_", Cmd: "UNBIND", Path: "key_", Bad: true},
	{Name: "/badloc__", Cmd: "BIND", Path: "sub__key", Bad: true},
	{Name: "/badlocsub_", Cmd: "BOUND", Path: "sub._", Bad: true},
	{Name: "/badlocdots", Cmd: "BOUND", Path: "key..x", Bad: true},
	// names that resemble a listed name but are not listed ("no other method is mapped"): 19-24 are plain methods
	{Name: "/noslash/Bound"}, // 19: the entry below lists the name without the leading slash
	{Name: "bound"},          // 20: "/bound" is listed
	{Name: "/Bound"},         // 21
	{Name: "/bound/"},        // 22
	{Name: "/boun"},          // 23
	{Name: "//bound"},        // 24
	{Name: "noslash/Bound", Cmd: "BOUND", Path: "key"},             // 25: listed exactly like this
	{Name: "noslash/Bind", Cmd: "BIND", Path: "key"},               // 26
	{Name: "/noslash/Bind"},                                        // 27: not listed
	{Name: "/bindsubs", Cmd: "BIND", Path: "subs.key", List: true}, // 28: the keys of the reply are spread over a repeated message field
	{Name: "/cmd7", Num: 7, Path: "key"},                           // 29: the entry carries an affinity command number this version does not know: a plain method
	{Name: "/cmdneg", Num: -1, Path: "key"},                        // 30
}

// Msg is the request/response message shape used by the pool histories.
type Msg struct {
	Key  string
	Keys []string
	Num  int32
	Sub  *Msg
	Subs []*Msg
}

// EmbMsg embeds a (nil) message pointer: its Key / Keys / Sub fields are promoted from it.
type EmbMsg struct {
	*Msg
	Other string
}

// JSON renders the ApiConfig of c (absent fields are left out).
func (c Config) JSON() string {
	var cp []string
	add := func(name string, v interface{}, present bool) {
		if present {
			cp = append(cp, fmt.Sprintf("%q:%v", name, v))
		}
	}
	add("minSize", c.Min, c.Min != 0)
	add("maxSize", c.Max, c.Max != 0)
	add("maxConcurrentStreamsLowWatermark", c.WM, c.WM != 0)
	add("fallbackToReady", c.Fallback, c.Fallback)
	add("unresponsiveDetectionMs", c.UdMs, c.UdMs != 0)
	add("unresponsiveCalls", c.UdCalls, c.UdCalls != 0)
	add("bindPickStrategy", `"ROUND_ROBIN"`, c.RR)
	var parts []string
	if !c.NoPool {
		parts = append(parts, `"channelPool":{`+strings.Join(cp, ",")+`}`)
	}
	if c.Methods != "none" {
		var ms []string
		for _, m := range Methods {
			if m.Cmd == "" || m.AliasOf != "" {
				continue
			}
			names := fmt.Sprintf("%q", m.Name)
			for _, a := range Methods {
				if a.AliasOf == m.Name {
					names += fmt.Sprintf(",%q", a.Name)
				}
			}
			ms = append(ms, fmt.Sprintf(`{"name":[%s],"affinity":{"command":%q,"affinityKey":%q}}`, names, m.Cmd, m.Path))
		}
		for _, m := range Methods {
			if m.Num != 0 {
				ms = append(ms, fmt.Sprintf(`{"name":[%q],"affinity":{"command":%d,"affinityKey":%q}}`, m.Name, m.Num, m.Path))
			}
		}
		ms = append(ms, `{"name":["/noaff"]}`)
		parts = append(parts, `"method":[`+strings.Join(ms, ",")+`]`)
	}
	return "{" + strings.Join(parts, ",") + "}"
}

// effective applies the documented defaults (written from the statement of C17, not from the code).
func (c Config) effective() Config {
	e := c
	if c.NoPool {
		e = Config{Strict: c.Strict, Methods: c.Methods}
	}
	if e.Min == 0 {
		e.Min = 1
	}
	if e.Max == 0 {
		e.Max = 4
	}
	if e.WM == 0 {
		e.WM = 100
	}
	return e
}

// ---- fake balancer.ClientConn --------------------------------------------------------------

type fsc struct {
	id int
	// addrs names the address list the connection works with. Like gRPC's subchannel the fake KEEPS the slice it is
	// given (held, no copy) and ignores an update that equals what it holds at that moment (grpc-go 1.56.3,
	// addrConn.updateAddrs): a balancer that later writes into a slice it has handed out changes what the
	// connection "holds" without the connection ever moving to the new addresses.
	addrs    string
	held     []resolver.Address
	connects int
	foreign  bool // never created by the balancer
}

// astr is the identity of an address list: everything a resolver can put into an address counts.
func astr(a []resolver.Address) string {
	s := make([]string, 0, len(a))
	for _, x := range a {
		e := x.Addr
		if x.ServerName != "" {
			e += "|sn=" + x.ServerName
		}
		if x.Attributes != nil {
			e += "|attr=" + x.Attributes.String()
		}
		if x.BalancerAttributes != nil {
			e += "|battr=" + x.BalancerAttributes.String()
		}
		if x.Metadata != nil {
			e += fmt.Sprintf("|md=%v", x.Metadata)
		}
		if x.Type != 0 {
			e += fmt.Sprintf("|type=%d", x.Type)
		}
		s = append(s, e)
	}
	return strings.Join(s, ",")
}

func (s *fsc) UpdateAddresses(a []resolver.Address) { s.setAddrs(a) }

func (s *fsc) setAddrs(a []resolver.Address) {
	if s.held != nil && astr(s.held) == astr(a) {
		return // "unchanged" for gRPC
	}
	s.held, s.addrs = a, astr(a)
}
func (s *fsc) Connect() { s.connects++ }
func (s *fsc) GetOrBuildProducer(balancer.ProducerBuilder) (balancer.Producer, func()) {
	return nil, func() {}
}
func (s *fsc) String() string { return fmt.Sprintf("conn#%d", s.id) }

type fcc struct {
	failNew, strict bool
	all             []*fsc
	// per-step observations
	created     []*fsc
	removed     []balancer.SubConn
	pubs        []balancer.State
	refused     int
	updAddr     int
	everRemoved map[balancer.SubConn]bool
	// called inside RemoveSubConn (the library is in the middle of a take-over then)
	onRemove func(balancer.SubConn)
	onCreate func() // called inside NewSubConn (the library may hold its locks there)
}

func (c *fcc) reset() { c.created, c.removed, c.pubs, c.refused, c.updAddr = nil, nil, nil, 0, 0 }
func (c *fcc) NewSubConn(a []resolver.Address, o balancer.NewSubConnOptions) (balancer.SubConn, error) {
	if c.failNew || (c.strict && len(a) == 0) {
		c.refused++
		return nil, errors.New("fake ClientConn: NewSubConn refused")
	}
	sc := &fsc{id: len(c.all), addrs: astr(a), held: a}
	c.all = append(c.all, sc)
	c.created = append(c.created, sc)
	if c.onCreate != nil {
		c.onCreate()
	}
	return sc, nil
}
func (c *fcc) RemoveSubConn(sc balancer.SubConn) {
	c.removed = append(c.removed, sc)
	if c.everRemoved == nil {
		c.everRemoved = map[balancer.SubConn]bool{}
	}
	c.everRemoved[sc] = true
	if c.onRemove != nil {
		c.onRemove(sc)
	}
}
func (c *fcc) UpdateAddresses(sc balancer.SubConn, a []resolver.Address) {
	c.updAddr++
	if f, ok := sc.(*fsc); ok {
		f.setAddrs(a)
	}
}
func (c *fcc) UpdateState(s balancer.State)          { c.pubs = append(c.pubs, s) }
func (c *fcc) ResolveNow(resolver.ResolveNowOptions) {}
func (c *fcc) Target() string                        { return "fake" }

var addrSets = [][]resolver.Address{{{Addr: "A"}}, {{Addr: "B1"}, {Addr: "B2"}}, {{Addr: "C"}}, nil,
	// the same backend as list 0, differing only in what else a resolver attaches to an address
	{{Addr: "A", Attributes: attributes.New("zone", "z1")}}, {{Addr: "A", Attributes: attributes.New("zone", "z2")}},
	{{Addr: "A", ServerName: "a.example.com"}}, {{Addr: "A", BalancerAttributes: attributes.New("weight", 3)}}, {{Addr: "B1"}, {Addr: "B2", Metadata: "m"}},
	// addresses of the (deprecated) other kind: whatever the resolver hands over is what the connections get
	{{Addr: "A"}, {Addr: "LB", Type: resolver.GRPCLB}}, {{Addr: "LB2", Type: resolver.GRPCLB}}}

func addrIdx(i int) int { return ((i % len(addrSets)) + len(addrSets)) % len(addrSets) }

func addrName(i int) string { return astr(addrSets[addrIdx(i)]) }

type foreignCfg struct {
	serviceconfig.LoadBalancingConfig
}

// ictx returns parent extended with the private interceptor value, obtained through the public
// unary interceptor and a capturing invoker.
func ictx(parent context.Context, req, reply interface{}) context.Context {
	out := parent
	grpcgcp.GCPUnaryClientInterceptor(parent, "/m", req, reply, nil, func(ctx context.Context, _ string, _, _ interface{}, _ *grpc.ClientConn, _ ...grpc.CallOption) error {
		out = ctx
		return nil
	})
	return out
}

var stNames = map[connectivity.State]string{connectivity.Idle: "Idle", connectivity.Connecting: "Connecting", connectivity.Ready: "Ready", connectivity.TransientFailure: "TransientFailure", connectivity.Shutdown: "Shutdown"}

// lateCtx reports a deadline that has been reached while it is not done yet.
type lateCtx struct {
	context.Context
	dl time.Time
}

func (c lateCtx) Deadline() (time.Time, bool) { return c.dl, true }
