package poolsim

import (
	"pgregory.net/rapid"
)

// Profile steers the generator towards the classes a property needs.
type Profile struct {
	Name     string
	Min, Max [2]int // ranges; Max is drawn >= Min unless Wild
	WM       []int
	Wild     bool // (min,max,wm) from the full grid incl. 0 and min>max
	Fallback int  // percent of cases with fallback_to_ready
	UdMs     []int64
	UdCalls  []int
	RR       int // percent of cases with ROUND_ROBIN
	Strict   int // percent of cases with the strict factory
	Hostile  bool
	Shutdown bool // pool conns may be shut down
	W        map[string]int
	MaxSteps int
	Methods  []int // method indices for picks (weights by repetition)
	CfgOps   bool  // resolver updates with nil / foreign / alternative configs
	NoFirst  int   // percent of cases that do NOT start with a resolver update carrying the config
}

func weighted(w map[string]int) []string {
	order := []string{"resolve", "reserr", "state", "pick", "done", "adv", "failnew", "cancel", "allready", "bindflow", "decall", "readyrepl", "staledown", "emptypool", "saturate", "refreshcycle", "stalede", "affswap", "fbflow", "bindacross", "growmax", "multibind", "fillwm", "affburst", "flaprefresh", "rrempty", "rrstraddle", "unbindrace", "resurrect", "rrwrap", "rrdead", "fbtwice", "rrresurrect", "rrlongwait", "hashpair", "reserrdown", "resurrectgrow", "refreshresp", "rrdupspin", "crflow", "bounddead"}
	var out []string
	for _, k := range order {
		for i := 0; i < w[k]; i++ {
			out = append(out, k)
		}
	}
	return out
}

func genStep(p *Profile, cfg *Config) *rapid.Generator[[]Op] {
	kinds := weighted(p.W)
	return rapid.Custom(func(t *rapid.T) []Op {
		pick := func() Op {
			op := Op{K: "pick", M: rapid.SampledFrom(p.Methods).Draw(t, "m"), Key: rapid.IntRange(0, 3).Draw(t, "key")}
			if rapid.IntRange(0, 9).Draw(t, "widekey") == 0 {
				op.Key = rapid.IntRange(5, 11).Draw(t, "keywide")
			}
			if rapid.IntRange(0, 4).Draw(t, "stale") == 0 {
				op.Pk = rapid.IntRange(1, 8).Draw(t, "pk")
			}
			if rapid.IntRange(0, 2).Draw(t, "hasdl") == 0 {
				op.DlMs = rapid.SampledFrom([]int{1, 5, 50, 1000}).Draw(t, "dlms")
			}
			if rapid.IntRange(0, 15).Draw(t, "late") == 0 {
				op.Late = rapid.IntRange(1, 2).Draw(t, "latekind")
			}
			if rapid.IntRange(0, 11).Draw(t, "expired") == 0 {
				op.Exp = true
			}
			if rapid.IntRange(0, 7).Draw(t, "twinmsg") == 0 {
				op.Msg = rapid.IntRange(6, 7).Draw(t, "twinkind") // request types of two packages that print alike
			}
			if p.Hostile {
				if rapid.IntRange(0, 5).Draw(t, "hmsg") == 0 {
					op.Msg = rapid.IntRange(1, 5).Draw(t, "msg")
				}
				if rapid.IntRange(0, 5).Draw(t, "hnoic") == 0 {
					op.NoIC = true
				}
				if rapid.IntRange(0, 5).Draw(t, "hkey") == 0 {
					op.Key = 4
				}
			}
			return op
		}
		state := func() Op {
			op := Op{K: "state", Idx: rapid.IntRange(0, 5).Draw(t, "idx")}
			sts := []int{0, 1, 2, 2, 2, 2, 3}
			if p.Shutdown && rapid.IntRange(0, 5).Draw(t, "sd") == 0 {
				sts = []int{4}
			}
			op.St = rapid.SampledFrom(sts).Draw(t, "st")
			if p.Hostile || p.Shutdown {
				op.Sel = rapid.SampledFrom([]int{0, 0, 0, 0, 1, 1, 2, 3}).Draw(t, "sel")
			} else {
				op.Sel = rapid.SampledFrom([]int{0, 0, 0, 0, 0, 1}).Draw(t, "sel")
			}
			return op
		}
		done := func() Op {
			op := Op{K: "done", Idx: rapid.IntRange(-1, 6).Draw(t, "call"), Out: rapid.SampledFrom([]int{0, 0, 0, 1, 2, 2, 3, 4, 5}).Draw(t, "out")}
			if rapid.IntRange(0, 3).Draw(t, "anycode") == 0 {
				op.Out = rapid.SampledFrom([]int{6, 7, 8, 9, 10, 11, 12, 13, 14, 15, 16, 17, 18, 19, 20, 21, 22, 23, 24, 26, 26}).Draw(t, "outcode") // any status code, plain errors, an error with status OK
			}
			if (p.Name == "affinity" || p.Name == "fallback") && rapid.IntRange(0, 14).Draw(t, "discarded") == 0 {
				op.Out = 25 // gRPC discarded the pick: Done(DoneInfo{}) without any RPC
			}
			if rapid.IntRange(0, 3).Draw(t, "rep") == 0 {
				op.Rep = rapid.SampledFrom([]int{1, 1, 2}).Draw(t, "repkind")
				op.Reply = rapid.SliceOfN(rapid.IntRange(0, 4), 0, 3).Draw(t, "reply")
			}
			return op
		}
		name := rapid.SampledFrom(kinds).Draw(t, "kind")
		switch name {
		case "resolve":
			op := Op{K: "resolve", Addrs: rapid.SampledFrom([]int{0, 0, 1, 2, 3, 3, 4, 5, 6, 7, 8, 9, 10}).Draw(t, "addrs"), Cfg: 1, SC: rapid.IntRange(0, 3).Draw(t, "sc") == 0}
			if p.CfgOps {
				op.Cfg = rapid.SampledFrom([]int{0, 1, 1, 2, 3}).Draw(t, "cfg")
			}
			return []Op{op}
		case "reserr":
			// resolvers report errors of many dynamic types; sometimes two different ones in a row
			ops := []Op{{K: "reserr", Out: rapid.IntRange(0, 6).Draw(t, "errkind")}}
			if rapid.IntRange(0, 2).Draw(t, "reserr2") == 0 {
				ops = append(ops, Op{K: "reserr", Out: rapid.IntRange(0, 6).Draw(t, "errkind2")})
			}
			return ops
		case "state":
			return []Op{state()}
		case "pick":
			return []Op{pick()}
		case "done":
			return []Op{done()}
		case "adv":
			return []Op{{K: "adv", Ns: rapid.SampledFrom([]int64{1, 1e6, 7e6, 7e6 + 1, 14e6, 50e6, 100e6, 100e6 + 1, 200e6 + 1, 1e9, 3600e9, 30 * 24 * 3600e9, 400 * 24 * 3600e9}).Draw(t, "ns")}}
		case "failnew":
			return []Op{{K: "failnew", B: rapid.Bool().Draw(t, "b")}}
		case "cancel":
			return []Op{{K: "cancel", Idx: rapid.IntRange(-1, 3).Draw(t, "idx")}}
		case "allready":
			var ops []Op
			for i := 0; i < 6; i++ {
				ops = append(ops, Op{K: "state", Idx: i, St: 2})
			}
			return ops
		case "bindflow":
			// BIND, complete ok, then use the key
			key := rapid.IntRange(0, 3).Draw(t, "bk")
			bm := 1
			um := 2
			if rapid.IntRange(0, 3).Draw(t, "listloc") == 0 {
				bm, um = 4, 5
			}
			ops := []Op{{K: "pick", M: bm, Key: key}, {K: "done", Idx: -1, Out: 0}}
			if rapid.IntRange(0, 4).Draw(t, "thenunbind") == 0 {
				ops = append(ops, Op{K: "pick", M: 3, Key: key}, Op{K: "done", Idx: -1, Out: rapid.SampledFrom([]int{0, 0, 1, 11, 19, 23}).Draw(t, "uout")})
			}
			ops = append(ops, Op{K: "pick", M: um, Key: key})
			if um == 2 && rapid.IntRange(0, 2).Draw(t, "twins") == 0 {
				// the key is also used by requests of the two types that print alike (one after the other, with some load in
				// between so that a wrong channel shows)
				ops = append(ops, Op{K: "pick", M: 0}, Op{K: "pick", M: 2, Key: key, Msg: 6}, Op{K: "pick", M: 2, Key: key, Msg: 7}, Op{K: "pick", M: 2, Key: key, Msg: 6})
			}
			return ops
		case "decall":
			// a call with a short deadline, time passes to (around) the detector boundary, client-side deadline error
			ops := []Op{{K: "pick", M: rapid.SampledFrom([]int{0, 0, 2}).Draw(t, "dm"), Key: rapid.IntRange(0, 3).Draw(t, "dk"), DlMs: rapid.SampledFrom([]int{1, 1, 5}).Draw(t, "dl")}}
			if rapid.IntRange(0, 2).Draw(t, "boundary") != 0 {
				ops = append(ops, Op{K: "adv", Mode: 1, Idx: -1, Eps: rapid.SampledFrom([]int{-1, 0, 1, 1, 1, 1000000}).Draw(t, "eps")})
			} else {
				ops = append(ops, Op{K: "adv", Ns: rapid.SampledFrom([]int64{1e6, 7e6 + 1, 14e6 + 1, 100e6 + 1, 200e6 + 1, 400e6 + 1, 61e9}).Draw(t, "wait")})
			}
			ops = append(ops, Op{K: "done", Idx: -1, Out: rapid.SampledFrom([]int{2, 2, 2, 2, 3, 4}).Draw(t, "dout")})
			return ops
		case "rrstraddle":
			// (ROUND_ROBIN bind) a BIND pick waits for its channel while a response arrives on that channel; the call then
			// starts AFTER that response and ends with a client-side deadline error: it counts for the detector
			var ops []Op
			for i := 0; i < 6; i++ {
				ops = append(ops, Op{K: "state", Idx: i, St: 2})
			}
			for i := 0; i < 3; i++ {
				ops = append(ops, Op{K: "pick", M: 0}) // with a high watermark these spread over the channels
			}
			ops = append(ops, Op{K: "state", Idx: 1, St: rapid.SampledFrom([]int{1, 1, 3, 0}).Draw(t, "sdown")})
			dl := rapid.SampledFrom([]int{50, 50, 1000}).Draw(t, "sdl")
			for i := 0; i < 3; i++ { // the cursor visits every channel of a pool of up to three: one of these waits
				ops = append(ops, Op{K: "pick", M: 1, Key: rapid.IntRange(0, 3).Draw(t, "sk"), DlMs: dl})
			}
			ops = append(ops, Op{K: "adv", Ns: rapid.SampledFrom([]int64{1e6, 3e6, 8e6}).Draw(t, "sw1")})
			for i := 0; i < 6; i++ {
				ops = append(ops, Op{K: "done", Idx: -1, Out: 0})
			}
			ops = append(ops, Op{K: "adv", Ns: rapid.SampledFrom([]int64{1, 1e6, 3e6}).Draw(t, "sw2")}, Op{K: "state", Idx: 1, St: 2})
			return append(ops, Op{K: "adv", Mode: 1, Idx: -1, Eps: rapid.SampledFrom([]int{0, 1, 1000000}).Draw(t, "seps")}, Op{K: "done", Idx: -1, Out: 2}, Op{K: "done", Idx: -1, Out: 2})
		case "readyrepl":
			ri := rapid.IntRange(0, 3).Draw(t, "ri")
			if rapid.IntRange(0, 3).Draw(t, "replfails") == 0 {
				// the replacement's first attempt fails: TRANSIENT_FAILURE, then (after gRPC's backoff) IDLE, then it connects
				return []Op{{K: "state", Sel: 1, Idx: ri, St: 1}, {K: "state", Sel: 1, Idx: ri, St: 3}, {K: "state", Sel: 1, Idx: ri, St: 0}, {K: "state", Sel: 1, Idx: ri, St: 1}, {K: "state", Sel: 1, Idx: ri, St: 2}}
			}
			return []Op{{K: "state", Sel: 1, Idx: ri, St: 2}}
		case "staledown":
			// a slot leaves READY (home or stand-in fails)
			return []Op{{K: "state", Sel: 0, Idx: rapid.IntRange(0, 5).Draw(t, "si"), St: rapid.SampledFrom([]int{1, 3, 0}).Draw(t, "sst")}}
		case "emptypool":
			var ops []Op
			for i := 0; i < 6; i++ {
				ops = append(ops, Op{K: "state", Sel: 0, Idx: 0, St: 4})
			}
			return append(ops, Op{K: "resolve", Addrs: rapid.SampledFrom([]int{0, 1, 3}).Draw(t, "ea"), Cfg: 1})
		case "refreshcycle":
			// consecutive refreshes of one channel without any response in between (exponential backoff)
			n := rapid.IntRange(1, 3).Draw(t, "cycles")
			if cfg.UdMs > 0 && cfg.UdMs <= 100 && rapid.IntRange(0, 14).Draw(t, "manycycles") == 0 {
				n = rapid.IntRange(8, 36).Draw(t, "cyclesmany") // long runs of refreshes without a response: large backoff exponents
			}
			calls := cfg.UdCalls
			if calls < 1 {
				calls = 1
			}
			if calls > 5 {
				calls = 5 // huge thresholds: the composite cannot reach them anyway
			}
			var ops []Op
			for c := 0; c < n; c++ {
				for j := 0; j < calls; j++ {
					ops = append(ops, Op{K: "pick", M: 0, DlMs: 1})
					if j == calls-1 {
						ops = append(ops, Op{K: "adv", Mode: 1, Idx: -1, Eps: rapid.SampledFrom([]int{1, 1, 1, 0, -1, 5000000}).Draw(t, "ceps")})
					} else {
						ops = append(ops, Op{K: "adv", Ns: 2e6})
					}
					ops = append(ops, Op{K: "done", Idx: -1, Out: 2})
				}
				ops = append(ops, Op{K: "state", Sel: 1, Idx: 0, St: 2})
			}
			return ops
		case "stalede":
			// a deadline call that started before the channel's last response
			return []Op{{K: "pick", M: 0, DlMs: 1}, {K: "pick", M: 0}, {K: "done", Idx: -1, Out: rapid.SampledFrom([]int{0, 1, 3}).Draw(t, "sout")},
				{K: "adv", Ns: rapid.SampledFrom([]int64{2e6, 8e6, 101e6, 61e9}).Draw(t, "swait")}, {K: "done", Idx: -1, Out: 2}}
		case "affswap":
			// bind a key, refresh its home channel through keyed deadline calls, complete the refresh, use the key
			key := rapid.IntRange(0, 3).Draw(t, "ak")
			calls := cfg.UdCalls
			if calls < 1 {
				calls = 1
			}
			if calls > 5 {
				calls = 5 // huge thresholds: the composite cannot reach them anyway
			}
			ops := []Op{{K: "pick", M: 1, Key: key}, {K: "done", Idx: -1, Out: 0}}
			for j := 0; j < calls; j++ {
				ops = append(ops, Op{K: "pick", M: 2, Key: key, DlMs: 1}, Op{K: "adv", Mode: 1, Idx: -1, Eps: 1}, Op{K: "done", Idx: -1, Out: 2})
			}
			if rapid.IntRange(0, 3).Draw(t, "midpick") == 0 {
				ops = append(ops, Op{K: "pick", M: 2, Key: key})
			}
			ops = append(ops, Op{K: "state", Sel: 4, Key: key, St: 2}, Op{K: "pick", M: rapid.SampledFrom([]int{2, 2, 3}).Draw(t, "am"), Key: key})
			return ops
		case "unbindrace":
			// UNBIND calls for a key that is not bound yet are in flight (on whatever channels are least loaded) while a
			// BIND for that key completes; they then complete and unbind it. Another key lives on one of those channels;
			// its channel is refreshed afterwards and the key is used.
			k2 := rapid.IntRange(0, 3).Draw(t, "uk2")
			k1 := (k2 + rapid.IntRange(1, 3).Draw(t, "uk1")) % 4
			calls := cfg.UdCalls
			if calls < 1 {
				calls = 1
			}
			if calls > 5 {
				calls = 5 // huge thresholds: the composite cannot reach them anyway
			}
			ops := []Op{{K: "pick", M: 1, Key: k2}, {K: "done", Idx: -1, Out: 0}}
			n := rapid.IntRange(1, 4).Draw(t, "un")
			for i := 0; i < n; i++ {
				ops = append(ops, Op{K: "pick", M: 3, Key: k1})
			}
			ops = append(ops, Op{K: "pick", M: 1, Key: k1}, Op{K: "done", Idx: -1, Out: 0})
			for i := 0; i < n; i++ {
				ops = append(ops, Op{K: "done", Idx: -1, Out: 0})
			}
			for j := 0; j < calls; j++ {
				ops = append(ops, Op{K: "pick", M: 2, Key: k2, DlMs: 1}, Op{K: "adv", Mode: 1, Idx: -1, Eps: 1}, Op{K: "done", Idx: -1, Out: 2})
			}
			return append(ops, Op{K: "state", Sel: 4, Key: k2, St: 2}, Op{K: "pick", M: 2, Key: k2}, Op{K: "pick", M: 2, Key: k1}, Op{K: "pick", M: 2, Key: k2})
		case "resurrect":
			// a channel whose old connection is shut down while its refresh is in flight comes back through the replacement;
			// then the home of another key fails and that channel may be the only READY one left for the stand-in search
			k := rapid.IntRange(0, 3).Draw(t, "rk")
			k2 := (k + rapid.IntRange(1, 3).Draw(t, "rk2")) % 4
			calls := cfg.UdCalls
			if calls < 1 {
				calls = 1
			}
			if calls > 5 {
				calls = 5 // huge thresholds: the composite cannot reach them anyway
			}
			var ops []Op
			for i := 0; i < 6; i++ {
				ops = append(ops, Op{K: "state", Idx: i, St: 2})
			}
			ops = append(ops, Op{K: "pick", M: 1, Key: k}, Op{K: "pick", M: 1, Key: k2}, Op{K: "done", Idx: -1, Out: 0}, Op{K: "done", Idx: -1, Out: 0})
			for j := 0; j < calls; j++ {
				ops = append(ops, Op{K: "pick", M: 2, Key: k2, DlMs: 1}, Op{K: "adv", Mode: 1, Idx: -1, Eps: 1}, Op{K: "done", Idx: -1, Out: 2})
			}
			ops = append(ops, Op{K: "state", Sel: 5, Key: k2, St: 4}, Op{K: "state", Sel: 4, Key: k2, St: 2},
				Op{K: "state", Sel: 5, Key: k, St: rapid.SampledFrom([]int{1, 3, 0}).Draw(t, "rdown")})
			return append(ops, Op{K: "pick", M: 2, Key: k}, Op{K: "pick", M: 2, Key: k}, Op{K: "pick", M: 0})
		case "rrresurrect":
			// a channel whose old connection is shut down during its refresh comes back through the replacement (it is in the
			// rotation again, at the end); later it is not READY: the BIND whose turn falls on it has to wait for it like for any other
			k2 := rapid.IntRange(0, 3).Draw(t, "rk2")
			calls := cfg.UdCalls
			if calls < 1 {
				calls = 1
			}
			if calls > 5 {
				calls = 5
			}
			var ops []Op
			for i := 0; i < 6; i++ {
				ops = append(ops, Op{K: "state", Idx: i, St: 2})
			}
			ops = append(ops, Op{K: "pick", M: 1, Key: k2}, Op{K: "done", Idx: -1, Out: 0})
			for j := 0; j < calls; j++ {
				ops = append(ops, Op{K: "pick", M: 2, Key: k2, DlMs: 1}, Op{K: "adv", Mode: 1, Idx: -1, Eps: 1}, Op{K: "done", Idx: -1, Out: 2})
			}
			ops = append(ops, Op{K: "state", Sel: 5, Key: k2, St: 4}, Op{K: "state", Sel: 4, Key: k2, St: 2},
				Op{K: "pick", M: 2, Key: k2}, Op{K: "done", Idx: -1, Out: 0},
				Op{K: "state", Sel: 5, Key: k2, St: rapid.SampledFrom([]int{1, 3, 0}).Draw(t, "rdown")})
			for i := 0; i < 8; i++ {
				ops = append(ops, Op{K: "pick", M: 1, Key: rapid.IntRange(0, 3).Draw(t, "dk"), DlMs: rapid.SampledFrom([]int{50, 50, 0}).Draw(t, "ddl")})
				if rapid.IntRange(0, 2).Draw(t, "ddone") != 0 {
					ops = append(ops, Op{K: "done", Idx: -1, Out: 0})
				}
			}
			if rapid.Bool().Draw(t, "backready") {
				ops = append(ops, Op{K: "state", Sel: 5, Key: k2, St: 2})
			}
			return ops
		case "rrlongwait":
			// a BIND without a deadline waits for its channel for a long time (a minute, an hour, a month): it stays waiting
			var ops []Op
			for i := 0; i < 6; i++ {
				ops = append(ops, Op{K: "state", Idx: i, St: 2})
			}
			which := rapid.IntRange(0, 5).Draw(t, "lwhich")
			ops = append(ops, Op{K: "state", Sel: 0, Idx: which, St: rapid.SampledFrom([]int{1, 3, 0}).Draw(t, "ldown")})
			for i := 0; i < 7; i++ {
				ops = append(ops, Op{K: "pick", M: 1, Key: rapid.IntRange(0, 3).Draw(t, "lk")})
			}
			for _, ns := range rapid.SliceOfN(rapid.SampledFrom([]int64{59e9, 1e9 + 1, 60e9, 60e9 + 1, 3600e9, 30 * 24 * 3600e9}), 1, 3).Draw(t, "lwaits") {
				ops = append(ops, Op{K: "adv", Ns: ns, Mode: 2}, Op{K: "pick", M: 0})
			}
			if rapid.Bool().Draw(t, "lready") {
				ops = append(ops, Op{K: "state", Sel: 0, Idx: which, St: 2})
			}
			return ops
		case "rrdead":
			// channels leave the pool (SHUTDOWN), possibly all of them and the pool is re-created; then BINDs: the rotation
			// covers exactly the channels of the pool, nobody waits for one that is gone
			var ops []Op
			for i := 0; i < 6; i++ {
				ops = append(ops, Op{K: "state", Idx: i, St: 2})
			}
			nd := rapid.SampledFrom([]int{1, 1, 2, 7}).Draw(t, "ndead")
			for i := 0; i < nd; i++ {
				ops = append(ops, Op{K: "state", Sel: 0, Idx: rapid.IntRange(0, 5).Draw(t, "dwhich"), St: 4})
			}
			if nd == 7 {
				ops = append(ops, Op{K: "resolve", Addrs: 0, Cfg: 1})
			}
			if rapid.Bool().Draw(t, "dready") {
				for i := 0; i < 6; i++ {
					ops = append(ops, Op{K: "state", Idx: i, St: 2})
				}
			}
			for i := 0; i < 7; i++ {
				ops = append(ops, Op{K: "pick", M: 1, Key: rapid.IntRange(0, 3).Draw(t, "dk"), DlMs: rapid.SampledFrom([]int{0, 0, 50}).Draw(t, "ddl")})
				if rapid.IntRange(0, 2).Draw(t, "ddone") != 0 {
					ops = append(ops, Op{K: "done", Idx: -1, Out: 0})
				}
			}
			return ops
		case "rrwrap":
			// the cursor is placed just before a wrap point, then enough BINDs follow to cross it
			var ops []Op
			for i := 0; i < 6; i++ {
				ops = append(ops, Op{K: "state", Idx: i, St: 2})
			}
			ops = append(ops, Op{K: "rrjump", N: rapid.IntRange(0, 7).Draw(t, "wrapat")})
			for i := 0; i < 9; i++ {
				ops = append(ops, Op{K: "pick", M: 1, Key: rapid.IntRange(0, 3).Draw(t, "wk")}, Op{K: "done", Idx: -1, Out: 0})
			}
			return ops
		case "bindacross":
			// a BIND stays in flight while its channel is refreshed (through keyed deadline calls that follow it
			// there), then completes; then the key is used
			k2 := rapid.IntRange(0, 3).Draw(t, "k2")
			k1 := rapid.IntRange(0, 3).Draw(t, "k1")
			calls := cfg.UdCalls
			if calls < 1 {
				calls = 1
			}
			if calls > 5 {
				calls = 5 // huge thresholds: the composite cannot reach them anyway
			}
			ops := []Op{{K: "pick", M: 1, Key: k2}, {K: "done", Idx: -1, Out: 0}, {K: "pick", M: 1, Key: k1}}
			for j := 0; j < calls; j++ {
				ops = append(ops, Op{K: "pick", M: 2, Key: k2, KeyOf: 1, DlMs: 1}, Op{K: "adv", Mode: 1, Idx: -1, Eps: 1}, Op{K: "done", Idx: -1, Out: 2})
			}
			ops = append(ops, Op{K: "state", Sel: 1, Idx: 0, St: 2}, Op{K: "done", Idx: -1, Out: 0}, Op{K: "pick", M: 2, Key: k1}, Op{K: "pick", M: 2, Key: k1})
			return ops
		case "fbflow":
			// bind a key, take its home channel down, use the key repeatedly (stand-in), optionally disturb, use again
			key := rapid.IntRange(0, 3).Draw(t, "fk")
			ops := []Op{{K: "pick", M: 1, Key: key}, {K: "done", Idx: -1, Out: 0},
				{K: "state", Sel: 5, Key: key, St: rapid.SampledFrom([]int{3, 1, 0, 4}).Draw(t, "fst")},
				{K: "pick", M: 2, Key: key}, {K: "pick", M: 2, Key: key}}
			switch rapid.IntRange(0, 6).Draw(t, "disturb") {
			case 6: // a BIND whose reply carries the key again lands somewhere (load decides) and completes: nothing moves
				ops = append(ops, Op{K: "pick", M: 0}, Op{K: "pick", M: 1, Key: key}, Op{K: "done", Idx: -1, Out: 0})
			case 0: // the stand-in fails
				ops = append(ops, Op{K: "state", Sel: 6, Key: key, St: rapid.SampledFrom([]int{3, 1, 0}).Draw(t, "fst2")})
			case 1: // the home channel recovers
				ops = append(ops, Op{K: "state", Sel: 5, Key: key, St: 2})
			case 2: // the stand-in is refreshed
				calls := cfg.UdCalls
				if calls < 1 {
					calls = 1
				}
				for j := 0; j < calls; j++ {
					ops = append(ops, Op{K: "pick", M: 2, Key: key, DlMs: 1}, Op{K: "adv", Mode: 1, Idx: -1, Eps: 1}, Op{K: "done", Idx: -1, Out: 2})
				}
				ops = append(ops, Op{K: "state", Sel: 1, Idx: 0, St: 2})
			case 3: // saturate the pool
				for i := 0; i < 6; i++ {
					ops = append(ops, Op{K: "pick", M: 0})
				}
			}
			ops = append(ops, Op{K: "pick", M: 2, Key: key}, Op{K: "pick", M: rapid.SampledFrom([]int{2, 3, 5}).Draw(t, "fm"), Key: key})
			if rapid.IntRange(0, 3).Draw(t, "unbindonly") == 0 {
				// unbind while on the stand-in; afterwards the key is unknown and must be spread by load
				ops = append(ops, Op{K: "pick", M: 3, Key: key}, Op{K: "done", Idx: -1, Out: 0}, Op{K: "pick", M: 0}, Op{K: "pick", M: 0},
					Op{K: "pick", M: 2, Key: key}, Op{K: "pick", M: 2, Key: key}, Op{K: "pick", M: 2, Key: key})
				return ops
			}
			if rapid.IntRange(0, 2).Draw(t, "rebind") == 0 {
				// unbind while on the stand-in, bind again, use the key
				ops = append(ops, Op{K: "pick", M: 3, Key: key}, Op{K: "done", Idx: -1, Out: 0}, Op{K: "pick", M: 1, Key: key}, Op{K: "done", Idx: -1, Out: 0},
					Op{K: "pick", M: 2, Key: key}, Op{K: "pick", M: 2, Key: key})
			}
			return ops
		case "fbtwice":
			// two outages of the same home channel: the first served by stand-in S (its calls stay open, S is the busier one
			// afterwards), the second by another stand-in T; then S fails while T stays READY: the key must stay on T
			key := rapid.IntRange(0, 3).Draw(t, "fk")
			down := func(l string) int { return rapid.SampledFrom([]int{3, 1, 0}).Draw(t, l) }
			var ops []Op
			for i := 0; i < 6; i++ {
				ops = append(ops, Op{K: "state", Idx: i, St: 2})
			}
			ops = append(ops, Op{K: "pick", M: 1, Key: key}, Op{K: "done", Idx: -1, Out: 0},
				Op{K: "state", Sel: 5, Key: key, St: down("d1")},
				Op{K: "pick", M: 2, Key: key}, Op{K: "pick", M: 2, Key: key},
				Op{K: "state", Sel: 5, Key: key, St: 2},
				Op{K: "pick", M: 2, Key: key}, Op{K: "done", Idx: -1, Out: 0},
				Op{K: "state", Sel: 5, Key: key, St: down("d2")},
				Op{K: "pick", M: 2, Key: key})
			switch rapid.IntRange(0, 2).Draw(t, "then") {
			case 0, 1: // the former stand-in (channel of the second most recent open call) fails
				ops = append(ops, Op{K: "state", Sel: 7, Idx: -2, St: down("d3")})
			case 2: // the former stand-in is refreshed and shut down
				ops = append(ops, Op{K: "state", Sel: 7, Idx: -2, St: 4})
			}
			ops = append(ops, Op{K: "pick", M: 2, Key: key}, Op{K: "pick", M: 2, Key: key})
			if rapid.Bool().Draw(t, "homeback") {
				ops = append(ops, Op{K: "state", Sel: 5, Key: key, St: 2}, Op{K: "pick", M: 2, Key: key})
			}
			return ops
		case "reserrdown":
			// a resolver error, then every connection leaves READY (reconnecting, not failing): calls are told to wait exactly
			// as they would be without the resolver error
			ops := []Op{{K: "reserr", Out: rapid.IntRange(0, 6).Draw(t, "errkind")}}
			for i := 0; i < 6; i++ {
				ops = append(ops, Op{K: "state", Idx: i, St: rapid.SampledFrom([]int{0, 1, 1}).Draw(t, "rdst")})
			}
			ops = append(ops, Op{K: "pick", M: 0}, Op{K: "pick", M: 2, Key: rapid.IntRange(0, 3).Draw(t, "rdk")})
			if rapid.Bool().Draw(t, "rdresolve") {
				ops = append(ops, Op{K: "resolve", Addrs: rapid.IntRange(0, 2).Draw(t, "rdaddrs"), Cfg: 1}, Op{K: "pick", M: 0})
			}
			ops = append(ops, Op{K: "state", Idx: 0, St: 2}, Op{K: "pick", M: 0})
			return ops
		case "resurrectgrow", "refreshresp", "rrdupspin":
			// a refresh is started by deadline calls on a plain channel ...
			calls := cfg.UdCalls
			if calls < 1 {
				calls = 1
			}
			if calls > 5 {
				calls = 5
			}
			var ops []Op
			for i := 0; i < 6; i++ {
				ops = append(ops, Op{K: "state", Idx: i, St: 2})
			}
			startRefresh := func() {
				for j := 0; j < calls; j++ {
					ops = append(ops, Op{K: "pick", M: 0, DlMs: 1}, Op{K: "adv", Mode: 1, Idx: -1, Eps: 1}, Op{K: "done", Idx: -1, Out: 2})
				}
			}
			startRefresh()
			switch name {
			case "refreshresp":
				// ... a response arrives on the old connection while the replacement is pending, later more deadline calls
				// come: the refresh in flight is still the one and only
				ops = append(ops, Op{K: "pick", M: 0}, Op{K: "done", Idx: -1, Out: 0})
				startRefresh()
				startRefresh()
				ops = append(ops, Op{K: "state", Sel: 1, Idx: 0, St: 2})
			default:
				// ... the old connection is shut down during the refresh, the replacement becomes READY (the channel is back)
				ops = append(ops, Op{K: "state", Sel: 8, Idx: 0, St: 4}, Op{K: "state", Sel: 1, Idx: 0, St: 2})
				if name == "resurrectgrow" {
					// one channel reconnects, the others are saturated: a saturated call has to wait for it
					ops = append(ops, Op{K: "state", Sel: 0, Idx: rapid.IntRange(0, 5).Draw(t, "rgwhich"), St: rapid.SampledFrom([]int{1, 0}).Draw(t, "rgst")})
					for i := 0; i < 8; i++ {
						ops = append(ops, Op{K: "pick", M: 0})
					}
				} else {
					// the channel that came back is refreshed once more; then everything shuts down and BINDs arrive on old pickers
					startRefresh()
					ops = append(ops, Op{K: "state", Sel: 1, Idx: 0, St: 2})
					for i := 0; i < 7; i++ {
						ops = append(ops, Op{K: "state", Sel: 0, Idx: i, St: 4})
					}
					for i := 0; i < 3; i++ {
						ops = append(ops, Op{K: "pick", M: 1, Key: i, Pk: rapid.IntRange(1, 8).Draw(t, "rdpk"), DlMs: 50})
					}
					ops = append(ops, Op{K: "state", Sel: 3, Idx: 0, St: 2})
				}
			}
			return ops
		case "bounddead":
			// a key is bound, its channel reports SHUTDOWN and leaves the pool, the key is used again (what becomes of such a
			// binding is not stated - but the picker still answers as its state says and nothing panics or hangs)
			key := rapid.IntRange(0, 3).Draw(t, "bdk")
			var ops []Op
			for i := 0; i < 6; i++ {
				ops = append(ops, Op{K: "state", Idx: i, St: 2})
			}
			ops = append(ops, Op{K: "pick", M: 1, Key: key}, Op{K: "done", Idx: -1, Out: 0}, Op{K: "state", Sel: 5, Key: key, St: 4},
				Op{K: "pick", M: 2, Key: key}, Op{K: "pick", M: 3, Key: key}, Op{K: "pick", M: 2, Key: key, Pk: rapid.IntRange(0, 3).Draw(t, "bdpk")}, Op{K: "pick", M: 0})
			return ops
		case "crflow":
			// three refreshes of one channel in a row; two calls stay open on it, so that (with the creation probe) a response
			// can arrive while the second refresh is being started: the window counts from there again
			key := rapid.IntRange(0, 3).Draw(t, "ck")
			calls := cfg.UdCalls
			if calls < 1 {
				calls = 1
			}
			if calls > 3 {
				calls = 3
			}
			var ops []Op
			for i := 0; i < 6; i++ {
				ops = append(ops, Op{K: "state", Idx: i, St: 2})
			}
			ops = append(ops, Op{K: "pick", M: 1, Key: key}, Op{K: "done", Idx: -1, Out: 0}, Op{K: "pick", M: 2, Key: key}, Op{K: "pick", M: 2, Key: key})
			for round := 0; round < 3; round++ {
				for j := 0; j < calls; j++ {
					ops = append(ops, Op{K: "pick", M: 2, Key: key, DlMs: 1}, Op{K: "adv", Mode: 1, Idx: -1, Eps: 1}, Op{K: "done", Idx: -1, Out: 2})
				}
				ops = append(ops, Op{K: "state", Sel: 4, Key: key, St: 2})
			}
			return ops
		case "hashpair":
			// two keys that collide under a common string hash: both bound (the second after some load, so mostly elsewhere),
			// one unbound again, then the other one is used: it is still bound to its channel
			pi := rapid.IntRange(0, HashPairs-1).Draw(t, "pair")
			ka, kb := 12+2*pi, 13+2*pi
			if rapid.Bool().Draw(t, "pairswap") {
				ka, kb = kb, ka
			}
			var ops []Op
			for i := 0; i < 6; i++ {
				ops = append(ops, Op{K: "state", Idx: i, St: 2})
			}
			ops = append(ops, Op{K: "pick", M: 1, Key: ka}, Op{K: "done", Idx: -1, Out: 0}, Op{K: "pick", M: 0},
				Op{K: "pick", M: 1, Key: kb}, Op{K: "done", Idx: -1, Out: 0}, Op{K: "pick", M: 0}, Op{K: "pick", M: 0},
				Op{K: "pick", M: 2, Key: ka}, Op{K: "pick", M: 2, Key: kb},
				Op{K: "pick", M: 3, Key: ka}, Op{K: "done", Idx: -1, Out: 0},
				Op{K: "pick", M: 2, Key: kb}, Op{K: "pick", M: 2, Key: kb}, Op{K: "pick", M: 2, Key: ka},
				Op{K: "pick", M: 3, Key: kb}, Op{K: "done", Idx: -1, Out: 0}, Op{K: "pick", M: 2, Key: kb})
			return ops
		case "multibind":
			// a BIND whose response carries several keys, some of them bound already; then the keys are used
			k1 := rapid.IntRange(0, 3).Draw(t, "mk1")
			reply := rapid.SliceOfN(rapid.IntRange(0, 3), 1, 3).Draw(t, "mreply")
			if rapid.Bool().Draw(t, "boundfirst") {
				reply = append([]int{k1}, reply...)
			}
			bm, rep := 4, 1
			if rapid.IntRange(0, 2).Draw(t, "viasubs") == 0 {
				// the keys come in a repeated message field; sometimes one element is nil (the reply binds nothing then)
				bm, rep = 28, rapid.SampledFrom([]int{1, 2, 2}).Draw(t, "subsnil")
			}
			ops := []Op{{K: "pick", M: 1, Key: k1}, {K: "done", Idx: -1, Out: 0}, {K: "pick", M: 0}, {K: "pick", M: bm, Key: k1}, {K: "done", Idx: -1, Out: 0, Rep: rep, Reply: reply}}
			for _, k := range reply {
				ops = append(ops, Op{K: "pick", M: rapid.SampledFrom([]int{2, 2, 5}).Draw(t, "mm"), Key: k}, Op{K: "pick", M: 2, Key: k})
			}
			return ops
		case "fillwm":
			// load one channel right up to a large watermark: the next call must still be placed there
			n := cfg.WM
			if n == 0 {
				n = 100
			}
			if n < 5 || n > 300 {
				return []Op{{K: "pick", M: 0}}
			}
			var ops []Op
			for i := 0; i < n-1; i++ {
				ops = append(ops, Op{K: "pick", M: 0})
			}
			return append(ops, Op{K: "pick", M: 0}, Op{K: "pick", M: 0})
		case "affburst":
			// a very large number of successful BINDs on the only READY channel, then the others come up
			n := 300
			if rapid.IntRange(0, 149).Draw(t, "hugeburst") == 0 {
				n = 70000 // beyond 16-bit counters (about 0.3 s per case: rare)
			}
			ops := []Op{}
			for i := 1; i < 6; i++ {
				ops = append(ops, Op{K: "state", Sel: 0, Idx: i, St: 3})
			}
			ops = append(ops, Op{K: "state", Sel: 0, Idx: 0, St: 2}, Op{K: "burst", M: 1, Key: rapid.IntRange(0, 3).Draw(t, "burstkey"), N: n})
			for i := 0; i < 6; i++ {
				ops = append(ops, Op{K: "state", Idx: i, St: 2})
			}
			for i := 0; i < 5; i++ {
				ops = append(ops, Op{K: "pick", M: 0})
			}
			return ops
		case "flaprefresh":
			// while a channel is being refreshed another one flaps; then load arrives
			calls := cfg.UdCalls
			if calls < 1 {
				calls = 1
			}
			if calls > 5 {
				calls = 5 // huge thresholds: the composite cannot reach them anyway
			}
			var ops []Op
			for j := 0; j < calls; j++ {
				ops = append(ops, Op{K: "pick", M: 0, DlMs: 1}, Op{K: "adv", Mode: 1, Idx: -1, Eps: 1}, Op{K: "done", Idx: -1, Out: 2})
			}
			oi := rapid.IntRange(0, 5).Draw(t, "flapslot")
			ops = append(ops, Op{K: "state", Sel: 0, Idx: oi, St: rapid.SampledFrom([]int{3, 1, 0}).Draw(t, "flapst")}, Op{K: "state", Sel: 0, Idx: oi, St: 2})
			for i := 0; i < 4; i++ {
				ops = append(ops, Op{K: "pick", M: 0})
			}
			ops = append(ops, Op{K: "state", Sel: 1, Idx: 0, St: 2})
			for i := 0; i < 4; i++ {
				ops = append(ops, Op{K: "pick", M: 0})
			}
			return ops
		case "rrempty":
			// every pool connection is shut down while the factory refuses; then calls arrive on superseded pickers
			ops := []Op{{K: "failnew", B: true}}
			for i := 0; i < 7; i++ {
				ops = append(ops, Op{K: "state", Sel: 0, Idx: 0, St: 4})
			}
			for i := 0; i < 3; i++ {
				ops = append(ops, Op{K: "pick", M: rapid.SampledFrom([]int{1, 1, 0, 2}).Draw(t, "rem"), Key: rapid.IntRange(0, 3).Draw(t, "rek"), Pk: rapid.IntRange(1, 8).Draw(t, "repk"), DlMs: 5})
			}
			return append(ops, Op{K: "failnew", B: false}, Op{K: "resolve", Addrs: 0, Cfg: 1})
		case "growmax":
			// keep calls open and bring every new channel up until the pool cannot grow any more
			per := cfg.WM
			if per < 1 || per > 3 {
				per = 2
			}
			var ops []Op
			for round := 0; round < 7; round++ {
				for j := 0; j < per; j++ {
					ops = append(ops, Op{K: "pick", M: 0})
				}
				for i := 0; i < 8; i++ {
					ops = append(ops, Op{K: "state", Idx: i, St: 2})
				}
			}
			return ops
		case "saturate":
			n := rapid.IntRange(2, 8).Draw(t, "n")
			if rapid.IntRange(0, 29).Draw(t, "heavy") == 0 {
				n = rapid.SampledFrom([]int{130, 260, 520}).Draw(t, "nheavy") // stream counts beyond 8-bit ranges
			}
			var ops []Op
			for i := 0; i < n; i++ {
				ops = append(ops, Op{K: "pick", M: 0})
			}
			return ops
		}
		return nil
	})
}

// GenCase draws a case for profile p.
func GenCase(t *rapid.T, p *Profile) *Case {
	c := &Case{Profile: p.Name}
	cfg := &c.Config
	if p.Wild {
		cfg.Min = rapid.IntRange(0, 6).Draw(t, "min")
		cfg.Max = rapid.IntRange(0, 6).Draw(t, "max")
		cfg.WM = rapid.IntRange(0, 4).Draw(t, "wm")
		if (p.CfgOps || p.Name == "size") && rapid.IntRange(0, 7).Draw(t, "bigwm") == 0 {
			cfg.WM = rapid.SampledFrom([]int{99, 100, 101, 150}).Draw(t, "wmbig")
			cfg.Min, cfg.Max = 1, rapid.SampledFrom([]int{0, 1, 2}).Draw(t, "maxbig")
		}
	} else {
		cfg.Min = rapid.IntRange(p.Min[0], p.Min[1]).Draw(t, "min")
		lo := p.Max[0]
		if cfg.Min > lo {
			lo = cfg.Min
		}
		hi := p.Max[1]
		if hi < lo {
			hi = lo
		}
		cfg.Max = rapid.IntRange(lo, hi).Draw(t, "max")
		cfg.WM = rapid.SampledFrom(p.WM).Draw(t, "wm")
	}
	if (p.Name == "load" || p.Name == "size" || p.Name == "cfg") && rapid.IntRange(0, 11).Draw(t, "hugewm") == 0 {
		// the watermark is a uint32 field: values around 2^31 and 2^32
		cfg.WM = rapid.SampledFrom([]int{1<<31 - 1, 1 << 31, 1<<31 + 1, 1<<31 + 3, 1<<32 - 1}).Draw(t, "wmhuge")
	}
	pct := func(n int, label string) bool { return n > 0 && rapid.IntRange(1, 100).Draw(t, label) <= n }
	cfg.Fallback = pct(p.Fallback, "fallback")
	cfg.UdMs = rapid.SampledFrom(p.UdMs).Draw(t, "udMs")
	cfg.UdCalls = rapid.SampledFrom(p.UdCalls).Draw(t, "udCalls")
	cfg.RR = pct(p.RR, "rr")
	cfg.Strict = pct(p.Strict, "strict")
	if p.CfgOps {
		cfg.NoPool = pct(15, "nopool")
		if pct(10, "nomethods") {
			cfg.Methods = "none"
		}
		c.Alt = Config{Min: rapid.IntRange(0, 3).Draw(t, "amin"), Max: rapid.IntRange(0, 6).Draw(t, "amax"), WM: rapid.IntRange(0, 3).Draw(t, "awm"), Fallback: rapid.Bool().Draw(t, "afb"), RR: rapid.Bool().Draw(t, "arr")}
		if pct(50, "altnomethods") {
			c.Alt.Methods = "none"
		}
	}
	if p.Hostile && rapid.IntRange(0, 3).Draw(t, "closetail") == 0 {
		c.CloseTail = true
	}
	if cfg.UdMs > 0 && cfg.UdCalls > 0 && rapid.IntRange(0, 5).Draw(t, "rmprobe") == 0 {
		c.RmProbe = true
	}
	if cfg.UdMs > 0 && cfg.UdCalls > 0 && cfg.WM >= 50 && rapid.IntRange(0, 3).Draw(t, "crprobe") == 0 {
		c.CrProbe = true
	}
	var ops []Op
	if !pct(p.NoFirst, "nofirst") {
		ops = append(ops, Op{K: "resolve", Addrs: rapid.SampledFrom([]int{0, 0, 0, 1, 2}).Draw(t, "addrs0")})
		if pct(70, "allready0") {
			for i := 0; i < 6; i++ {
				ops = append(ops, Op{K: "state", Idx: i, St: 2})
			}
		}
	}
	max := p.MaxSteps
	if max == 0 {
		max = 40
	}
	for _, st := range rapid.SliceOfN(genStep(p, cfg), 1, max).Draw(t, "steps") {
		ops = append(ops, st...)
	}
	// a call that ends with an error may have received bytes before (a stream that got its headers and then hung):
	// a case-wide bit pattern decides for which failed completions DoneInfo.BytesReceived is set
	if rcv := rapid.SampledFrom([]uint32{0, 0, 0xFFFFFFFF, 0x55555555, 0x0F0F3333}).Draw(t, "rcvbits"); rcv != 0 {
		n := 0
		for i := range ops {
			if ops[i].K == "done" && ops[i].Out != 0 && ops[i].Out != 25 {
				ops[i].Rcv = rcv>>(uint(n)%32)&1 == 1
				n++
			}
		}
	}
	c.Ops = ops
	return c
}

var allMethods = []int{0, 0, 1, 1, 2, 2, 2, 3, 4, 5, 5, 6, 9, 10, 11, 12, 13, 19, 20, 25, 26, 27, 28, 28, 29}
var hostileMethods = []int{0, 1, 2, 3, 4, 5, 6, 7, 8, 9, 14, 15, 16, 17, 18, 19, 20, 21, 22, 23, 24, 25, 26, 27, 28, 29, 30}

// Profiles by name.
var Profiles = map[string]*Profile{
	"affinity": {Name: "affinity", Min: [2]int{1, 4}, Max: [2]int{1, 5}, WM: []int{1, 2, 3, 100}, Fallback: 30, UdMs: []int64{0, 7, 100}, UdCalls: []int{1, 1, 2}, Strict: 50, Shutdown: true,
		W: map[string]int{"resolve": 1, "state": 8, "pick": 18, "done": 10, "adv": 2, "allready": 2, "bindflow": 10, "decall": 8, "readyrepl": 8, "staledown": 3, "affswap": 8, "fbflow": 2, "stalede": 1, "bindacross": 6, "multibind": 6, "unbindrace": 5, "hashpair": 4}, Methods: allMethods},
	"load": {Name: "load", Min: [2]int{1, 5}, Max: [2]int{1, 5}, WM: []int{1, 2, 3, 4, 5}, Fallback: 20, UdMs: []int64{0, 7, 100}, UdCalls: []int{1, 2}, RR: 15, Strict: 50,
		W: map[string]int{"resolve": 1, "state": 8, "pick": 25, "done": 22, "adv": 2, "allready": 3, "bindflow": 3, "decall": 6, "readyrepl": 6, "staledown": 3, "saturate": 3, "refreshcycle": 3, "stalede": 2, "fbflow": 3, "flaprefresh": 3, "affburst": 1, "multibind": 3}, Methods: []int{0, 0, 0, 0, 2, 2, 9, 1, 3, 28}},
	"size": {Name: "size", Wild: true, WM: []int{1}, Fallback: 10, UdMs: []int64{0, 7}, UdCalls: []int{1}, Strict: 50, Shutdown: true,
		W: map[string]int{"resolve": 3, "state": 10, "pick": 20, "done": 6, "adv": 1, "failnew": 2, "allready": 5, "decall": 3, "readyrepl": 3, "emptypool": 1, "saturate": 6, "growmax": 2, "fillwm": 2, "flaprefresh": 3, "resurrectgrow": 4, "refreshresp": 3}, Methods: []int{0, 0, 0, 2, 9}, NoFirst: 5},
	"states": {Name: "states", Min: [2]int{1, 4}, Max: [2]int{1, 5}, WM: []int{1, 2, 100}, Fallback: 30, UdMs: []int64{7, 100}, UdCalls: []int{1}, Strict: 50, Shutdown: true, Hostile: true,
		W: map[string]int{"resolve": 1, "state": 30, "pick": 8, "done": 4, "adv": 1, "allready": 2, "decall": 8, "readyrepl": 8, "staledown": 4, "refreshcycle": 3, "flaprefresh": 4, "bounddead": 4}, Methods: allMethods},
	"hostile": {Name: "hostile", Wild: true, WM: []int{1}, Fallback: 50, UdMs: []int64{0, 1, 7}, UdCalls: []int{0, 1}, RR: 25, Strict: 50, Shutdown: true, Hostile: true, CfgOps: true, NoFirst: 20,
		W: map[string]int{"resolve": 4, "reserr": 2, "state": 12, "pick": 20, "done": 10, "adv": 2, "failnew": 3, "cancel": 2, "allready": 3, "bindflow": 4, "decall": 6, "readyrepl": 5, "staledown": 3, "emptypool": 1, "saturate": 2, "affswap": 3, "fbflow": 3, "refreshcycle": 2, "bindacross": 2, "multibind": 2, "rrempty": 3, "rrwrap": 2, "rrdupspin": 3, "bounddead": 3}, Methods: hostileMethods},
	"detector": {Name: "detector", Min: [2]int{1, 3}, Max: [2]int{1, 3}, WM: []int{100, 100, 2}, UdMs: []int64{0, 1, 7, 100, 60000, 1 << 31, 1<<32 - 1}, UdCalls: []int{0, 1, 1, 2, 2, 3, 4, 1 << 31, 1<<32 - 1}, Strict: 50, Shutdown: true, RR: 20,
		W: map[string]int{"resolve": 1, "state": 5, "pick": 8, "done": 8, "adv": 4, "failnew": 3, "allready": 2, "decall": 24, "readyrepl": 10, "refreshcycle": 10, "stalede": 8, "rrstraddle": 4, "crflow": 6}, Methods: []int{0, 0, 2, 1}},
	"fallback": {Name: "fallback", Min: [2]int{2, 4}, Max: [2]int{2, 4}, WM: []int{1, 2, 3}, Fallback: 100, UdMs: []int64{0, 7, 100}, UdCalls: []int{1}, Strict: 50,
		W: map[string]int{"resolve": 1, "state": 8, "pick": 20, "done": 6, "adv": 1, "allready": 3, "bindflow": 10, "decall": 5, "readyrepl": 6, "staledown": 6, "saturate": 2, "fbflow": 16, "affswap": 2, "bindacross": 1, "resurrect": 4, "fbtwice": 6}, Methods: []int{0, 2, 2, 2, 2, 5, 3, 1}},
	"rr": {Name: "rr", Min: [2]int{1, 6}, Max: [2]int{1, 6}, WM: []int{1, 2, 100}, Fallback: 20, UdMs: []int64{0, 7, 100}, UdCalls: []int{1}, RR: 100, Strict: 50, Shutdown: true,
		W: map[string]int{"rrwrap": 3, "rrdead": 4, "rrresurrect": 4, "rrlongwait": 3, "rrdupspin": 2, "emptypool": 1, "resolve": 1, "state": 12, "pick": 30, "done": 8, "adv": 4, "cancel": 4, "allready": 3, "decall": 3, "readyrepl": 4, "staledown": 5, "saturate": 1}, Methods: []int{1, 1, 1, 1, 4, 0, 2}},
	"addresses": {Name: "addresses", Min: [2]int{1, 3}, Max: [2]int{1, 4}, WM: []int{1, 2}, UdMs: []int64{7, 100}, UdCalls: []int{1}, Strict: 30, Shutdown: true,
		W: map[string]int{"resolve": 12, "reserr": 4, "state": 6, "pick": 10, "done": 5, "adv": 1, "allready": 3, "decall": 12, "readyrepl": 8, "saturate": 5, "failnew": 1, "refreshcycle": 4, "reserrdown": 4}, Methods: []int{0, 0, 2}},
	"cfg": {Name: "cfg", Wild: true, WM: []int{1}, Fallback: 30, UdMs: []int64{0, 7}, UdCalls: []int{0, 1}, RR: 20, Strict: 30, CfgOps: true, NoFirst: 30,
		W: map[string]int{"resolve": 5, "state": 8, "pick": 22, "done": 8, "adv": 1, "allready": 5, "bindflow": 8, "decall": 2, "readyrepl": 2, "saturate": 8, "growmax": 4, "fillwm": 2}, Methods: append(append([]int{}, hostileMethods...), 10, 10, 11, 12, 13, 13)},
}
