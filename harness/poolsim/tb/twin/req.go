// Package twin (second of two packages with this name), see the first.
package twin

// Req carries the affinity key last.
type Req struct {
	Other string
	Num   int32
	Key   string
}
