// Package twin (first of two packages with this name): request messages whose printed type name, "twin.Req", is the
// same as that of the other package's type while the layout differs.
package twin

// Req carries the affinity key first.
type Req struct {
	Key   string
	Other string
}
