// Package mesim drives multiendpoint.MultiEndpoint under a harness-owned clock and compares it
// with the reference model of DESIGN.md Appendix B after every operation and between individual
// timer callbacks. A case is plain data (Case), so the same executor serves rapid, the bounded
// exhaustive enumerator, the corpus and replay files.
package mesim

import (
	"fmt"
	"strings"
	"time"

	"github.com/GoogleCloudPlatform/grpc-gcp-go/grpcgcp/multiendpoint"
)

// Universe of endpoint names; the last one is never put into a list ("never-seen").
var Universe = []string{"a", "b", "c", "d", "e", "zz"}

// Op is one step of a history.
type Op struct {
	K    string `json:"k"`              // avail | set | adv | fire | advfire | quiesce
	E    int    `json:"e,omitempty"`    // endpoint index (mod len(Universe))
	B    bool   `json:"b,omitempty"`    // availability value
	L    []int  `json:"l,omitempty"`    // new list (indices into Universe[:5]); may be empty or contain duplicates
	D    int64  `json:"d,omitempty"`    // advance: nanoseconds (mode 0)
	Mode int    `json:"mode,omitempty"` // advance: 0 = D ns, 1 = to the next due timer + Eps ns
	Eps  int    `json:"eps,omitempty"`  // -1, 0, +1
	Pi   []int  `json:"pi,omitempty"`   // fire: choice sequence (each mod number of timers in flight)
}

// Case is a complete history.
type Case struct {
	Property   string `json:"property,omitempty"`
	R          int64  `json:"recovery_ns"`
	D          int64  `json:"switching_delay_ns"`
	Init       []int  `json:"init"`
	NameSet    int    `json:"nameSet,omitempty"`     // 0: a..e; 1: names with separators; 2: 300 endpoints
	InPlace    bool   `json:"inPlace,omitempty"`     // the caller keeps one slice and edits it in place between SetEndpoints calls
	EditOpts   int    `json:"editOptions,omitempty"` // >0: right after the construction the caller re-uses its options object: 1 both durations one hour, 2 both zero, 3 both negative, 4 the Endpoints field is set to nil
	EmptyFirst int    `json:"emptyFirst,omitempty"`  // >0: a construction with an empty list (1 nil list, 2 empty slice, 3 nil options pointer) is attempted first and must be rejected
	Ops        []Op   `json:"ops"`
	Failure    *Fail  `json:"failure,omitempty"`
}

// Fail describes an oracle failure.
type Fail struct {
	Prop string `json:"property"`
	Rule string `json:"rule"`
	Step int    `json:"step"`
	Msg  string `json:"message"`
}

func (f *Fail) Error() string {
	return fmt.Sprintf("%s rule %s at step %d: %s", f.Prop, f.Rule, f.Step, f.Msg)
}

// ---- harness clock ----

type vtimer struct {
	due      time.Time
	d        time.Duration
	f        func()
	stopped  bool
	inflight bool
	fired    bool
}

func (t *vtimer) Reset(time.Duration) bool { return true }
func (t *vtimer) Stop() bool {
	if t.fired || t.inflight {
		return false
	}
	was := !t.stopped
	t.stopped = true
	return was
}

type vclock struct {
	now    time.Time
	timers []*vtimer
}

func (c *vclock) install() {
	multiendpoint.VerifSetClock(func() time.Time { return c.now }, func(d time.Duration, f func()) multiendpoint.VerifTimer {
		t := &vtimer{due: c.now.Add(d), d: d, f: f}
		c.timers = append(c.timers, t)
		return t
	})
}
func (c *vclock) advance(d time.Duration) {
	c.now = c.now.Add(d)
	for _, t := range c.timers {
		if !t.stopped && !t.fired && !t.due.After(c.now) {
			t.inflight = true
		}
	}
}
func (c *vclock) inflight() []*vtimer {
	var out []*vtimer
	for _, t := range c.timers {
		if t.inflight && !t.fired {
			out = append(out, t)
		}
	}
	return out
}
func (c *vclock) pending(d time.Duration) int {
	n := 0
	for _, t := range c.timers {
		if !t.stopped && !t.fired && t.d == d {
			n++
		}
	}
	return n
}
func (c *vclock) nextDue() (time.Time, bool) {
	var best time.Time
	ok := false
	for _, t := range c.timers {
		if !t.stopped && !t.fired && !t.inflight && (!ok || t.due.Before(best)) {
			best, ok = t.due, true
		}
	}
	return best, ok
}

// ---- reference model (Appendix B) ----

type mstatus int

const (
	stU mstatus = iota
	stA
	stRec
	stUnk // recovery window elapsed but due timers have not all fired yet
)

type mep struct {
	st    mstatus // stU, stA or stRec as last decided
	since time.Time
}

type model struct {
	list []string
	ep   map[string]*mep
	cur  string
	R, D time.Duration
}

func (m *model) idx(e string) int {
	for i, x := range m.list {
		if x == e {
			return i
		}
	}
	return -1
}

// status is the reference status of e at instant now with nfl timers in flight.
func (m *model) status(e string, now time.Time, nfl int) mstatus {
	x := m.ep[e]
	if x.st != stRec {
		return x.st
	}
	if x.since.Add(m.R).After(now) {
		return stRec
	}
	if nfl == 0 {
		return stU
	}
	return stUnk
}

// settle turns elapsed recoveries into unavailable once nothing is in flight.
func (m *model) settle(now time.Time, nfl int) {
	if nfl != 0 {
		return
	}
	for _, x := range m.ep {
		if x.st == stRec && !x.since.Add(m.R).After(now) {
			x.st = stU
		}
	}
}

func (m *model) topA() string {
	for _, e := range m.list {
		if m.ep[e].st == stA {
			return e
		}
	}
	return ""
}

func (m *model) newEP(now time.Time) *mep {
	if m.R > 0 {
		return &mep{stRec, now}
	}
	return &mep{stU, now}
}

// exact is the rule for D == 0 with all statuses known.
func (m *model) exact(now time.Time) string {
	ta := m.topA()
	if m.idx(m.cur) >= 0 && m.status(m.cur, now, 0) == stRec && (ta == "" || m.idx(ta) > m.idx(m.cur)) {
		return m.cur
	}
	if ta != "" {
		return ta
	}
	if m.idx(m.cur) >= 0 {
		return m.cur
	}
	return m.list[0]
}

// Result of a run.
type Result struct {
	Fail       *Fail
	Labels     map[string]int
	Steps      int
	NontrivC13 bool
	NontrivC14 bool
}

// universeFor returns the endpoint names of a case; the last one is never put into a list.
func universeFor(set int) []string {
	switch set {
	case 1: // names containing the characters people join lists with
		return []string{"a,b", "c", "a", "b,c", ",", " ", "a b", "zz"}
	case 2: // many endpoints
		u := make([]string, 0, 301)
		for i := 0; i < 300; i++ {
			u = append(u, fmt.Sprintf("n%03d", i))
		}
		return append(u, "zz")
	}
	return Universe
}

var curUniverse = Universe

func names(ix []int) []string {
	n := len(curUniverse) - 1
	out := make([]string, 0, len(ix))
	for _, i := range ix {
		out = append(out, curUniverse[((i%n)+n)%n])
	}
	return out
}

func dedup(l []string) []string {
	seen := map[string]bool{}
	var out []string
	for _, e := range l {
		if !seen[e] {
			seen[e] = true
			out = append(out, e)
		}
	}
	return out
}

func hasDup(l []string) bool {
	seen := map[string]bool{}
	for _, e := range l {
		if seen[e] {
			return true
		}
		seen[e] = true
	}
	return false
}

type failPanic struct{ f *Fail }

// Run executes one case against the library and the model. props selects the oracles that may
// fail ("C13", "C14"); the others still update the model.
func Run(c *Case, props map[string]bool) (res Result) {
	res.Labels = map[string]int{}
	lab := res.Labels
	clk := &vclock{now: time.Unix(1000, 0)}
	clk.install()
	step := -1
	otherFailed := false
	fail := func(prop, rule, f string, a ...interface{}) {
		for _, p := range strings.Split(prop, "|") { // a rule may belong to several properties
			if props[p] {
				panic(failPanic{&Fail{Prop: p, Rule: rule, Step: step, Msg: fmt.Sprintf(f, a...)}})
			}
		}
		// another property's rule failed on this observation: the remaining rules of the same
		// observation are still evaluated (they are independent), then the case ends silently
		otherFailed = true
	}
	endIfOtherFailed := func() {
		if otherFailed {
			panic(failPanic{nil})
		}
	}
	defer func() {
		if r := recover(); r != nil {
			if fp, ok := r.(failPanic); ok {
				res.Fail = fp.f
				if fp.f == nil {
					lab["aborted_other_property"]++
				}
				return
			}
			res.Fail = &Fail{Prop: "C13", Rule: "panic", Step: step, Msg: fmt.Sprint(r)}
			if !props["C13"] {
				res.Fail.Prop = "C14"
			}
		}
	}()

	curUniverse = universeFor(c.NameSet)
	if c.NameSet != 0 {
		lab[fmt.Sprintf("name-set-%d", c.NameSet)]++
	}
	R, D := time.Duration(c.R), time.Duration(c.D)
	rawR, rawD := R, D
	if R < 0 || D < 0 {
		lab["negative-duration-configured"]++
	}
	if R < 0 {
		R = 0 // a negative duration means "none"
	}
	if D < 0 {
		D = 0
	}
	rawInit := names(c.Init)
	if len(rawInit) == 0 {
		rawInit = []string{"a"}
	}
	init := dedup(rawInit) // an endpoint listed more than once counts where it is listed first
	if len(init) != len(rawInit) {
		lab["duplicate-in-list"]++
	}
	callerList := append(make([]string, 0, 512), rawInit...)
	initArg := append([]string{}, rawInit...)
	if c.InPlace {
		initArg = callerList
	}
	if c.EmptyFirst == 3 {
		// no options at all: there is no endpoint list, the construction is refused like one with an empty list
		lab["construction-with-nil-options"]++
		var bad multiendpoint.MultiEndpoint
		var err error
		var p interface{}
		func() {
			defer func() { p = recover() }()
			bad, err = multiendpoint.NewMultiEndpoint(nil)
		}()
		if p != nil || err == nil || bad != nil {
			fail("C13", "B.emptyList", "NewMultiEndpoint(nil) returned (%v, %v) panic=%v, want an error and no object", bad, err, p)
			endIfOtherFailed()
		}
	} else if c.EmptyFirst > 0 {
		var l []string
		if c.EmptyFirst == 2 {
			l = []string{}
		}
		lab["construction-with-empty-list"]++
		if bad, err := multiendpoint.NewMultiEndpoint(&multiendpoint.MultiEndpointOptions{Endpoints: l, RecoveryTimeout: rawR, SwitchingDelay: rawD}); err == nil || bad != nil {
			fail("C13", "B.emptyList", "NewMultiEndpoint with an empty endpoint list returned (%v, %v), want an error and no object", bad, err)
			endIfOtherFailed()
		}
	}
	userOpts := &multiendpoint.MultiEndpointOptions{Endpoints: initArg, RecoveryTimeout: rawR, SwitchingDelay: rawD}
	me, err := multiendpoint.NewMultiEndpoint(userOpts)
	switch c.EditOpts {
	case 1:
		userOpts.RecoveryTimeout, userOpts.SwitchingDelay = time.Hour, time.Hour
	case 2:
		userOpts.RecoveryTimeout, userOpts.SwitchingDelay = 0, 0
	case 3:
		userOpts.RecoveryTimeout, userOpts.SwitchingDelay = -time.Second, -time.Second
	case 4:
		userOpts.Endpoints = nil
	}
	if err != nil {
		fail("C13", "create", "NewMultiEndpoint(%v): %v", init, err)
		endIfOtherFailed()
	}
	m := &model{list: init, ep: map[string]*mep{}, cur: init[0], R: R, D: D}
	for _, e := range init {
		m.ep[e] = m.newEP(clk.now)
	}
	fuzzy := false // a list with duplicates was accepted: membership only from then on
	if got := me.Current(); got != init[0] {
		fail("C13", "B.init", "initial current %q, want first of %v", got, init)
		endIfOtherFailed()
	}

	type snap struct {
		cur  string
		list []string
		stat map[string]mstatus
	}
	snapshot := func() snap {
		s := snap{cur: m.cur, list: m.list, stat: map[string]mstatus{}}
		nfl := len(clk.inflight())
		for e := range m.ep {
			s.stat[e] = m.status(e, clk.now, nfl)
		}
		return s
	}
	// check runs after every op and after every single timer callback.
	// kind: "avail+" (a true report), "set", "other" (non-timer ops), "fire" (one timer callback).
	check := func(what, kind string, before snap) {
		got := me.Current()
		if m.idx(got) < 0 {
			fail("C13", "B.member", "%s: current %q is not in the accepted list %v", what, got, m.list)
		}
		if fuzzy {
			endIfOtherFailed()
			m.cur = got
			return
		}
		nfl := len(clk.inflight())
		m.settle(clk.now, nfl)
		prev := before.cur
		pidx := m.idx(prev)
		stat := func(e string) mstatus { return m.status(e, clk.now, nfl) }
		ta := m.topA()
		// C14 (b2): never from an available endpoint to a lower-priority one.
		if got != prev && pidx >= 0 && before.stat[prev] == stA && stat(prev) == stA && m.idx(got) > pidx {
			fail("C14", "B.noDowngrade", "%s: moved from available %q to lower-priority %q (list %v)", what, prev, got, m.list)
		}
		// C14 (a): a recovering current endpoint stays while no higher-priority endpoint is available.
		if pidx >= 0 && stat(prev) == stRec && (ta == "" || m.idx(ta) > pidx) {
			lab["recovering-current-kept"]++
			if got != prev {
				if D == 0 {
					// without a switching delay C13 pins Current() exactly: "the recovering current endpoint if no higher-priority endpoint is available"
					fail("C14|C13", "B.recoveryWindow", "%s: current %q is recovering and no higher-priority endpoint is available, yet current became %q (list %v)", what, prev, got, m.list)
				}
				fail("C14", "B.recoveryWindow", "%s: current %q is recovering and no higher-priority endpoint is available, yet current became %q (list %v)", what, prev, got, m.list)
			}
		}
		// C14 (b): with a switching delay, the call that makes a better endpoint available does not move
		// away from a usable current endpoint.
		madeBetter := false // some endpoint is available and better than prev now, and was not so before the call
		if pidx >= 0 {
			obi := indexOf(before.list, prev)
			for i := 0; i < pidx; i++ {
				e := m.list[i]
				if m.ep[e].st == stA && !(before.stat[e] == stA && indexOf(before.list, e) >= 0 && indexOf(before.list, e) < obi) {
					madeBetter = true
				}
			}
		}
		if D > 0 && (kind == "avail+" || kind == "set") && pidx >= 0 && (stat(prev) == stA || stat(prev) == stRec) && madeBetter {
			lab["delayed-switch-expected"]++
			if got != prev {
				fail("C14", "B.delay", "%s: switching delay %v, current %q still usable, moved to %q inside the call", what, D, prev, got)
			}
		}
		if nfl == 0 {
			// all statuses are known
			if ta != "" && stat(got) == stU && got != ta {
				fail("C13|C14", "B.unavailCurrent", "%s: current %q is unavailable but %q is available (list %v)", what, got, ta, m.list)
			}
			if ta == "" {
				want := prev
				if pidx < 0 {
					want = m.list[0]
				}
				if got != want {
					fail("C13", "B.sticky", "%s: no endpoint available, current %q want %q (list %v)", what, got, want, m.list)
				}
			}
			if D == 0 {
				if want := m.exact(clk.now); got != want {
					fail("C13", "B.exact", "%s: current %q want %q (list %v, prev %q)", what, got, want, m.list, prev)
				}
			}
		} else {
			lab["op-with-timers-in-flight"]++
		}
		endIfOtherFailed()
		m.cur = got
	}

	fireOne := func(i int, label string) {
		fl := clk.inflight()
		tm := fl[((i%len(fl))+len(fl))%len(fl)]
		before := snapshot()
		tm.fired = true
		tm.f()
		lab["timer-fired"]++
		if tm.d == D && D != R {
			lab["switch-timer-fired"]++
		}
		check(label+"/timer", "fire", before)
	}
	fireAll := func(pi []int, label string) {
		for k := 0; len(clk.inflight()) > 0; k++ {
			if n := len(clk.inflight()); n > 1 {
				lab["simultaneous-timers"]++
			}
			i := 0
			if k < len(pi) {
				i = pi[k]
			}
			fireOne(i, label)
		}
	}

	curRemovedOrReordered := false
	opWhilePending := false
	for si := range c.Ops {
		op := &c.Ops[si]
		step = si
		res.Steps++
		clk.advance(1) // no two ops share an instant
		pendingSwitch := D > 0 && D != R && clk.pending(D) > 0
		switch op.K {
		case "avail":
			e := curUniverse[((op.E%len(curUniverse))+len(curUniverse))%len(curUniverse)]
			before := snapshot()
			if pendingSwitch || len(clk.inflight()) > 0 {
				opWhilePending = true
			}
			me.SetEndpointAvailability(e, op.B)
			if x, ok := m.ep[e]; ok {
				nfl := len(clk.inflight())
				switch {
				case op.B:
					x.st = stA
				case x.st == stA:
					if R > 0 {
						x.st, x.since = stRec, clk.now
					} else {
						x.st = stU
					}
				case x.st == stRec && m.status(e, clk.now, nfl) == stRec:
					lab["repeated-unavailable-report"]++
				}
			} else {
				lab["unknown-endpoint-report"]++
			}
			kind := "other"
			if op.B {
				kind = "avail+"
			}
			check(fmt.Sprintf("Avail(%s,%v)", e, op.B), kind, before)
		case "set":
			nl := names(op.L)
			before := snapshot()
			if pendingSwitch || len(clk.inflight()) > 0 {
				opWhilePending = true
			}
			arg := append([]string{}, nl...)
			if c.InPlace {
				// the caller's one slice (same backing array), edited in place
				if cap(callerList) < len(nl) {
					callerList = append(make([]string, 0, 512), callerList...)
				}
				callerList = callerList[:len(nl)]
				copy(callerList, nl)
				arg = callerList
				lab["list-edited-in-place"]++
			}
			err := me.SetEndpoints(arg)
			if len(nl) == 0 {
				lab["empty-list"]++
				if err == nil {
					fail("C13", "B.emptyList", "SetEndpoints([]) accepted")
					endIfOtherFailed()
				}
			} else {
				if err != nil {
					fail("C13", "B.set", "SetEndpoints(%v) rejected: %v", nl, err)
					endIfOtherFailed()
				}
				fuzzy = false
				if hasDup(nl) {
					lab["duplicate-in-list"]++
					seen := map[string]bool{}
					var dd []string
					for _, e := range nl {
						if !seen[e] {
							seen[e] = true
							dd = append(dd, e)
						}
					}
					nl = dd
				}
				if i := indexOf(nl, m.cur); i < 0 || i != m.idx(m.cur) {
					curRemovedOrReordered = true
					lab["current-removed-or-moved"]++
				}
				ne := map[string]*mep{}
				for _, e := range nl {
					if x, ok := m.ep[e]; ok {
						ne[e] = x
					} else {
						ne[e] = m.newEP(clk.now)
						if _, was := before.stat[e]; !was && si > 0 {
							lab["endpoint-added"]++
						}
					}
				}
				m.list, m.ep = nl, ne
			}
			check(fmt.Sprintf("SetEndpoints(%v)", nl), "set", before)
		case "adv":
			d := time.Duration(op.D)
			if d < 0 {
				d = -d
			}
			if op.Mode == 1 {
				if nd, ok := clk.nextDue(); ok {
					d = nd.Sub(clk.now) + time.Duration(op.Eps)
					switch op.Eps {
					case -1:
						lab["advance-to-boundary-1ns"]++
					case 0:
						lab["advance-to-boundary"]++
					default:
						lab["advance-to-boundary+1ns"]++
					}
					if d < 0 {
						d = 0
					}
				}
			}
			if d > time.Hour {
				d = time.Hour
			}
			clk.advance(d)
			check("Advance", "other", snapshot())
		case "advfire": // advance to the next due timer and fire everything that is due
			if nd, ok := clk.nextDue(); ok {
				clk.advance(nd.Sub(clk.now))
			}
			fireAll(op.Pi, "AdvFire")
		case "fire":
			fireAll(op.Pi, "Fire")
		case "quiesce":
			for i := 0; i < 1000; i++ {
				fireAll(op.Pi, "Quiesce")
				nd, ok := clk.nextDue()
				if !ok {
					break
				}
				clk.advance(nd.Sub(clk.now))
			}
			fireAll(nil, "Quiesce")
			lab["quiesce"]++
			if !fuzzy {
				if ta := m.topA(); ta != "" && me.Current() != ta {
					fail("C14", "B.converge", "after quiescence current %q, top available %q (list %v)", me.Current(), ta, m.list)
				}
			}
			endIfOtherFailed()
		}
	}
	res.NontrivC13 = curRemovedOrReordered && (lab["timer-fired"] > 0 || c.NameSet != 0) && len(m.ep) >= 1 && len(c.Init) >= 2
	res.NontrivC14 = D > 0 && opWhilePending && lab["timer-fired"] > 0
	return
}

func indexOf(l []string, e string) int {
	for i, x := range l {
		if x == e {
			return i
		}
	}
	return -1
}
