package mesim

import (
	"os"
	"testing"

	"pgregory.net/rapid"
	"verifharness/hx"
)

func TestMain(m *testing.M) {
	hx.Quiet()
	code := m.Run()
	hx.Flush()
	os.Exit(code)
}

var rs = []int64{0, 0, 5, 50, 50, 3600e9, 36000000e9, 5, 50, -1, -1e9}
var ds = []int64{0, 0, 3, 5, 50, 80, 1800e9, 36000000e9, 3, 50, -1, -1e9}

func genOp(n int) *rapid.Generator[Op] {
	return rapid.Custom(func(t *rapid.T) Op {
		switch rapid.SampledFrom([]string{"avail", "avail", "avail", "set", "set", "adv", "adv", "fire", "fire", "quiesce", "advfire", "advfire"}).Draw(t, "k") {
		case "advfire":
			return Op{K: "advfire", Pi: rapid.SliceOfN(rapid.IntRange(0, 3), 0, 3).Draw(t, "pi")}
		case "avail":
			return Op{K: "avail", E: rapid.IntRange(0, 5).Draw(t, "e"), B: rapid.Bool().Draw(t, "b")}
		case "set":
			var l []int
			switch rapid.IntRange(0, 9).Draw(t, "shape") {
			case 0:
				l = nil // empty: must be rejected
			case 1:
				l = rapid.SliceOfN(rapid.IntRange(0, 4), 1, 5).Draw(t, "dupl") // may contain duplicates
			default:
				k := rapid.IntRange(1, 5).Draw(t, "len")
				l = append([]int{}, rapid.Permutation([]int{0, 1, 2, 3, 4}).Draw(t, "perm")[:k]...)
			}
			return Op{K: "set", L: l}
		case "adv":
			if rapid.Bool().Draw(t, "toDue") {
				return Op{K: "adv", Mode: 1, Eps: rapid.IntRange(-1, 1).Draw(t, "eps")}
			}
			return Op{K: "adv", D: int64(rapid.IntRange(1, 120).Draw(t, "d"))}
		case "fire":
			return Op{K: "fire", Pi: rapid.SliceOfN(rapid.IntRange(0, 3), 0, 4).Draw(t, "pi")}
		}
		return Op{K: "quiesce", Pi: rapid.SliceOfN(rapid.IntRange(0, 3), 0, 3).Draw(t, "pi")}
	})
}

// genBig draws a case over 300 endpoints: long lists (rotations with a stride), reports for high indices.
func genBig(t *rapid.T) *Case {
	list := func(label string) []int {
		n := rapid.SampledFrom([]int{1, 2, 13, 14, 16, 20, 40, 255, 256, 257, 258, 300}).Draw(t, label+"len")
		start := rapid.IntRange(0, 299).Draw(t, label+"start")
		stride := rapid.SampledFrom([]int{1, 7, 299, 113}).Draw(t, label+"stride")
		l := make([]int, 0, n)
		for i := 0; i < n; i++ {
			l = append(l, (start+i*stride)%300)
		}
		return l
	}
	c := &Case{NameSet: 2, R: rapid.SampledFrom(rs).Draw(t, "R"), D: rapid.SampledFrom(ds).Draw(t, "D"), Init: list("init")}
	c.Ops = rapid.SliceOfN(rapid.Custom(func(t *rapid.T) Op {
		switch rapid.IntRange(0, 5).Draw(t, "bk") {
		case 0:
			return Op{K: "set", L: list("set")}
		case 1:
			return Op{K: "advfire"}
		default:
			e := rapid.IntRange(0, 299).Draw(t, "be")
			if rapid.Bool().Draw(t, "edge") {
				e = rapid.SampledFrom([]int{0, 1, 254, 255, 256, 257, 299}).Draw(t, "bedge")
			} else if rapid.Bool().Draw(t, "member") {
				e = c.Init[rapid.IntRange(0, len(c.Init)-1).Draw(t, "bmember")] // an endpoint of the initial list (mostly still listed)
			}
			return Op{K: "avail", E: e, B: rapid.IntRange(0, 3).Draw(t, "bb") != 0}
		}
	}), 1, 24).Draw(t, "bops")
	c.Ops = append(c.Ops, Op{K: "quiesce"})
	return c
}

func genCase(t *rapid.T) *Case {
	c := genCase1(t)
	c.InPlace = rapid.IntRange(0, 3).Draw(t, "inplace") == 0
	return c
}

func genCase1(t *rapid.T) *Case {
	switch rapid.IntRange(0, 19).Draw(t, "nameset") {
	case 0:
		return genBig(t)
	case 1, 2:
		c := genCase0(t)
		c.NameSet = 1
		if rapid.IntRange(0, 5).Draw(t, "resplit") == 0 {
			// steer: the list is replaced by one that reads the same when written with commas ("a,b","c" <-> "a","b,c")
			from, to := []int{0, 1}, []int{2, 3}
			if rapid.Bool().Draw(t, "resplitrev") {
				from, to = to, from
			}
			c.Init = from
			c.Ops = append([]Op{{K: "avail", E: from[rapid.IntRange(0, 1).Draw(t, "rsa")], B: true}, {K: "set", L: to}, {K: "avail", E: to[rapid.IntRange(0, 1).Draw(t, "rsb")], B: true}, {K: "quiesce"}, {K: "set", L: from}, {K: "quiesce"}}, c.Ops...)
		}
		return c
	}
	return genCase0(t)
}

func genCase0(t *rapid.T) *Case {
	n := rapid.IntRange(1, 5).Draw(t, "n")
	c := &Case{
		R:    rapid.SampledFrom(rs).Draw(t, "R"),
		D:    rapid.SampledFrom(ds).Draw(t, "D"),
		Init: append([]int{}, rapid.Permutation([]int{0, 1, 2, 3, 4}).Draw(t, "init")[:n]...),
	}
	if rapid.IntRange(0, 7).Draw(t, "dupinit") == 0 {
		// the initial list names an endpoint twice
		k := rapid.IntRange(0, len(c.Init)-1).Draw(t, "dupwhich")
		c.Init = append(c.Init, c.Init[k])
	}
	c.Ops = rapid.SliceOfN(genOp(n), 1, 40).Draw(t, "ops")
	if rapid.IntRange(0, 9).Draw(t, "emptyFirst") == 0 {
		c.EmptyFirst = rapid.IntRange(1, 3).Draw(t, "emptyKind")
	}
	if rapid.IntRange(0, 4).Draw(t, "editOpts") == 0 {
		c.EditOpts = rapid.IntRange(1, 4).Draw(t, "editKind")
	}
	if rapid.IntRange(0, 19).Draw(t, "addwhileserving") == 0 && len(c.Init) >= 2 && len(c.Init) <= 4 {
		// steer: a new endpoint is added while the current one is serving; then the current one is removed, the new one comes
		// first and has not reported yet, a lower one reports: the new endpoint's own recovery window still holds
		cur, low := c.Init[0], c.Init[1]
		n := 4
		for _, x := range c.Init {
			if x == n {
				n = 3
			}
		}
		for _, x := range c.Init {
			if x == n {
				n = 2
			}
		}
		if c.R <= 0 {
			c.R = 100
		}
		c.Ops = append([]Op{{K: "avail", E: cur, B: true}, {K: "set", L: append(append([]int{}, c.Init...), n)}, {K: "set", L: []int{n, low}}, {K: "avail", E: low, B: true}, {K: "adv", D: 1}}, c.Ops...)
	}
	if rapid.IntRange(0, 39).Draw(t, "manydrops") == 0 && len(c.Init) >= 2 {
		// steer: many delayed switches in a row are overtaken by a reorder (the pending switch is outdated when its timer
		// fires); whatever book-keeping the timers have, the next delayed switch still happens
		x, y := c.Init[0], c.Init[1]
		c.Init = []int{x, y}
		if c.D <= 0 {
			c.D = 50
		}
		ops := []Op{{K: "avail", E: y, B: true}}
		for i, n := 0, rapid.SampledFrom([]int{3, 63, 64, 65, 70, 130}).Draw(t, "ndrops"); i < n; i++ {
			ops = append(ops, Op{K: "avail", E: x, B: true}, Op{K: "set", L: []int{y, x}}, Op{K: "quiesce"}, Op{K: "avail", E: x, B: false}, Op{K: "set", L: []int{x, y}})
		}
		c.Ops = append(ops, Op{K: "avail", E: x, B: true}, Op{K: "quiesce"})
		return c
	}
	if rapid.IntRange(0, 2).Draw(t, "readd") == 0 {
		// steer: an endpoint is removed and re-added (a new incarnation) while timers of the old one are pending
		perm := rapid.Permutation([]int{0, 1, 2, 3, 4}).Draw(t, "rperm")
		e := perm[0]
		l1 := append([]int{}, perm[1:1+rapid.IntRange(1, 3).Draw(t, "l1")]...)
		l2 := append([]int{e}, perm[1:1+rapid.IntRange(0, 3).Draw(t, "l2")]...)
		if rapid.Bool().Draw(t, "l2tail") {
			l2 = append(append([]int{}, perm[1:1+rapid.IntRange(0, 2).Draw(t, "l2head")]...), e)
		}
		steer := []Op{{K: "set", L: l1}, {K: "adv", D: int64(rapid.IntRange(1, 4).Draw(t, "rd"))}, {K: "set", L: l2},
			{K: "avail", E: perm[rapid.IntRange(0, 4).Draw(t, "rav")], B: true}, {K: "advfire"}, {K: "advfire"}}
		at := rapid.IntRange(0, len(c.Ops)).Draw(t, "rat")
		c.Ops = append(append(append([]Op{}, c.Ops[:at]...), steer...), c.Ops[at:]...)
	}
	if rapid.IntRange(0, 2).Draw(t, "flap") == 0 {
		// steer: the target of a pending delayed switch goes away and comes back around the timer
		perm := rapid.Permutation([]int{0, 1, 2, 3, 4}).Draw(t, "fperm")
		x, y := perm[0], perm[1]
		steer := []Op{{K: "avail", E: x, B: true}, {K: "avail", E: y, B: true}, {K: "avail", E: y, B: false}}
		if rapid.Bool().Draw(t, "fviaset") {
			steer[2] = Op{K: "set", L: []int{x, perm[2]}} // the target leaves the list instead
		}
		steer = append(steer, Op{K: "advfire"})
		if steer[2].K == "set" {
			steer = append(steer, Op{K: "set", L: []int{y, x, perm[2]}})
		}
		steer = append(steer, Op{K: "avail", E: y, B: true}, Op{K: "advfire"})
		at := rapid.IntRange(0, len(c.Ops)).Draw(t, "fat")
		c.Ops = append(append(append([]Op{}, c.Ops[:at]...), steer...), c.Ops[at:]...)
	}
	// every history ends with quiescence so that convergence is always examined
	c.Ops = append(c.Ops, Op{K: "quiesce"})
	return c
}

func runProp(t *testing.T, prop string) {
	props := map[string]bool{prop: true}
	st := hx.For(prop)
	record := func(c *Case, r Result) {
		nt := r.NontrivC13
		if prop == "C14" {
			nt = r.NontrivC14
		}
		st.Case(r.Steps, r.Labels, nt, c)
	}
	if p := hx.ReplayIn(); p != "" {
		var c Case
		if err := hx.Load(p, &c); err != nil {
			t.Fatal(err)
		}
		r := Run(&c, props)
		record(&c, r)
		if r.Fail != nil {
			c.Failure, c.Property = r.Fail, prop
			hx.WriteReplay(prop, &c)
			t.Fatalf("replay %s: %v", p, r.Fail)
		}
		return
	}
	for _, p := range hx.Corpus(prop) {
		var c Case
		if err := hx.Load(p, &c); err != nil {
			t.Fatal(err)
		}
		r := Run(&c, props)
		record(&c, r)
		st.Label("corpus-replayed", 1)
		if r.Fail != nil {
			c.Failure, c.Property = r.Fail, prop
			hx.WriteReplay(prop, &c)
			t.Fatalf("corpus %s: %v", p, r.Fail)
		}
	}
	// bounded exhaustive part
	if depth := hx.Knob("VERIF_EXH_DEPTH", 0); depth > 0 {
		if f := exhaustive(prop, depth, hx.Knob("VERIF_SHARD", 0), hx.Knob("VERIF_SHARDS", 1), record); f != nil {
			t.Fatalf("exhaustive: %v", f.Failure)
		}
	}
	rapid.Check(t, func(rt *rapid.T) {
		c := genCase(rt)
		r := Run(c, props)
		if r.Fail != nil {
			st.Failed()
			c.Failure, c.Property = r.Fail, prop
			hx.WriteReplay(prop, c)
			rt.Fatalf("%v", r.Fail)
		}
		record(c, r)
	})
}

func TestC13(t *testing.T) { runProp(t, "C13") }
func TestC14(t *testing.T) { runProp(t, "C14") }

// exhaustive enumerates every history of exactly `depth` ops (plus a final quiescence) over three
// endpoints and the reduced alphabet below, for a fixed set of (R, D, initial list) configurations.
func exhaustive(prop string, depth, shard, shards int, record func(*Case, Result)) *Case {
	props := map[string]bool{prop: true}
	var alpha []Op
	for e := 0; e < 3; e++ {
		alpha = append(alpha, Op{K: "avail", E: e, B: true}, Op{K: "avail", E: e, B: false})
	}
	for _, l := range [][]int{{0}, {1}, {2}, {0, 1}, {1, 0}, {0, 2}, {2, 0}, {1, 2}, {2, 1}, {0, 1, 2}, {0, 2, 1}, {1, 0, 2}, {1, 2, 0}, {2, 0, 1}, {2, 1, 0}} {
		alpha = append(alpha, Op{K: "set", L: l})
	}
	alpha = append(alpha,
		Op{K: "adv", Mode: 1, Eps: 0},        // next due timer becomes in flight (not fired yet)
		Op{K: "adv", Mode: 1, Eps: -1},       // just before the boundary
		Op{K: "fire", Pi: []int{0, 0, 0}},    // fire in creation order
		Op{K: "fire", Pi: []int{1, 1, 1, 1}}, // fire in another order
		Op{K: "quiesce"},
		Op{K: "advfire"}, // to the next due instant and fire
	)
	type cfg struct {
		R, D int64
		init []int
	}
	cfgs := []cfg{{0, 0, []int{0, 1, 2}}, {5, 0, []int{0, 1, 2}}, {0, 3, []int{0, 1, 2}}, {5, 3, []int{0, 1, 2}}, {3, 5, []int{0, 1, 2}}, {5, 5, []int{0, 1, 2}}, {5, 3, []int{0, 1}}}
	n := len(alpha)
	total := 1
	for i := 0; i < depth; i++ {
		total *= n
	}
	st := hx.For(prop)
	count := 0
	for ci, cf := range cfgs {
		for code := 0; code < total; code++ {
			if (code+ci)%shards != shard {
				continue
			}
			ops := make([]Op, 0, depth+1)
			x := code
			for i := 0; i < depth; i++ {
				ops = append(ops, alpha[x%n])
				x /= n
			}
			ops = append(ops, Op{K: "quiesce"})
			c := &Case{R: cf.R, D: cf.D, Init: cf.init, Ops: ops}
			r := Run(c, props)
			count++
			if r.Fail != nil {
				c.Failure, c.Property = r.Fail, prop
				hx.WriteReplay(prop, c)
				return c
			}
			// only every 64th case goes through the (hashing) statistics to keep enumeration cheap
			if count%64 == 0 {
				record(c, r)
			}
		}
	}
	st.AddCases(count - count/64) // the sampled ones were counted by record
	st.Label("exhaustive-histories", count)
	st.SetExtra("exhaustive", map[string]interface{}{"depth": depth, "alphabet": n, "configs": len(cfgs), "histories": count, "shard": shard, "shards": shards})
	return nil
}
