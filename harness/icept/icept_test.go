package icept

import (
	"os"
	"strings"
	"sync/atomic"
	"testing"
	"testing/synctest"

	"pgregory.net/rapid"
	"verifharness/hx"
)

var current *Case
var panicsOnly atomic.Bool

func TestMain(m *testing.M) {
	hx.Quiet()
	hx.OnHang.Store(func(desc string) {
		if panicsOnly.Load() {
			// TestC05Stream: a call that does not return is C12's matter, not a panic
			hx.For("C05").Label("run-ended-by-a-hang-that-belongs-to-C12", 1)
			hx.Flush()
			os.Exit(0)
		}
		if c := current; c != nil {
			c.Failure, c.Property = "hang: a stream method did not return within 3s of real time during "+desc, "C12"
			hx.WriteReplay("C12", c)
		}
	})
	hx.StartWatchdog(func() string { return "C12" })
	code := m.Run()
	hx.Flush()
	os.Exit(code)
}

func genCase(rt *rapid.T) *Case {
	c := &Case{
		Create:      rapid.SliceOfN(rapid.SampledFrom([]int{0, 0, 0, 1, 1, 2}), 0, 3).Draw(rt, "create"),
		SendErr:     rapid.SampledFrom([]int{0, 0, 1, 2}).Draw(rt, "sendErr"),
		RecvMode:    rapid.SampledFrom([]int{0, 0, 1, 1, 2}).Draw(rt, "recvMode"),
		SendBlock:   rapid.SampledFrom([]int{0, 0, 0, 1, 1, 2, 3}).Draw(rt, "sendBlock"),
		Deadline:    rapid.SampledFrom([]int{0, 0, 0, 5}).Draw(rt, "deadline"),
		CancelAtErr: rapid.SampledFrom([]int{0, 0, 0, 1, 2, 3, 4, 5, 7}).Draw(rt, "cancelAtErr"),
	}
	calls := []string{"send", "send", "send", "recv", "recv", "recv", "close", "header", "trailer", "context", "cancel", "deliver", "deliver"}
	c.Steps = rapid.SliceOfN(rapid.Custom(func(t *rapid.T) Step {
		call := rapid.SampledFrom(calls).Draw(t, "call")
		who := rapid.IntRange(1, 2).Draw(t, "who")
		switch call {
		case "send", "close":
			who = 0
		case "recv":
			who = 1
		case "context":
			who = rapid.IntRange(0, 2).Draw(t, "cwho")
		}
		return Step{Who: who, Call: call}
	}), 1, 14).Draw(rt, "steps")
	if rapid.IntRange(0, 29).Draw(rt, "long") == 0 {
		// a long conversation: many sends and receives after (or around) the creation
		n := rapid.IntRange(20, 70).Draw(rt, "nlong")
		for i := 0; i < n; i++ {
			call := rapid.SampledFrom([]string{"send", "send", "recv", "deliver", "header", "trailer"}).Draw(rt, "lcall")
			who := map[string]int{"send": 0, "recv": 1}[call]
			if call == "header" || call == "trailer" {
				who = 2
			}
			c.Steps = append(c.Steps, Step{Who: who, Call: call})
		}
	}
	return c
}

func one(t interface{ Fatalf(string, ...any) }, c *Case, run func(func())) {
	oneFor("C12", t, c, run)
}

// oneFor runs a stream program for the given property. C12 owns every rule of the stream; C05 ("no call made by the
// application panics") only the panics: any other failure belongs to C12's check and ends the case silently.
func oneFor(prop string, t interface{ Fatalf(string, ...any) }, c *Case, run func(func())) {
	st := hx.For(prop)
	current = c
	var f string
	var labels map[string]int
	var nt bool
	run(func() { f, labels, nt = Run(c) })
	current = nil
	if f != "" && prop != "C12" && !strings.Contains(f, "panicked") {
		st.Label("case-ended-by-a-failure-that-belongs-to-C12", 1)
		return
	}
	if f != "" {
		st.Failed()
		c.Failure, c.Property = f, prop
		hx.WriteReplay(prop, c)
		t.Fatalf("%s", f)
	}
	st.Case(len(c.Steps), labels, nt, c)
}

// TestC05Stream: the stream programs of C12 under the no-panic oracle of C05 (the interceptors are calls made by the application).
func TestC05Stream(t *testing.T) {
	panicsOnly.Store(true)
	inBubble := func(f func()) { synctest.Test(t, func(*testing.T) { f() }) }
	if p := hx.ReplayIn(); p != "" {
		var c Case
		if err := hx.Load(p, &c); err != nil {
			t.Fatal(err)
		}
		c.Failure = ""
		oneFor("C05", t, &c, inBubble)
		return
	}
	for _, m := range []string{"/svc/M", ""} {
		for rk := 0; rk < 3; rk++ {
			for ek := 0; ek < 3; ek++ {
				for nested := 0; nested < 4; nested++ {
					u := &UnaryCase{Method: m, NOpts: 2, ReqKind: rk, ErrKind: ek, Nested: nested}
					if f := RunUnary(u); strings.Contains(f, "panicked") {
						u.Failure = f
						hx.WriteReplay("C05", u)
						t.Fatalf("unary: %s", f)
					}
					hx.For("C05").AddCases(1)
				}
			}
		}
	}
	rapid.Check(t, func(rt *rapid.T) {
		c := genCase(rt)
		oneFor("C05", rt, c, func(f func()) { rapid.SyncTest(rt, func(*rapid.T) { f() }) })
	})
}

func TestC12(t *testing.T) {
	inBubble := func(f func()) { synctest.Test(t, func(*testing.T) { f() }) }
	if p := hx.ReplayIn(); p != "" {
		var probe map[string]interface{}
		hx.Load(p, &probe)
		if _, unary := probe["reqKind"]; unary {
			var u UnaryCase
			if err := hx.Load(p, &u); err != nil {
				t.Fatal(err)
			}
			u.Failure = ""
			if f := RunUnary(&u); f != "" {
				u.Failure = f
				hx.WriteReplay("C12", &u)
				t.Fatalf("unary: %s", f)
			}
			hx.For("C12").Case(1, nil, true, &u)
			return
		}
		var c Case
		if err := hx.Load(p, &c); err != nil {
			t.Fatal(err)
		}
		c.Failure = ""
		one(t, &c, inBubble)
		return
	}
	for _, p := range hx.Corpus("C12") {
		var c Case
		if err := hx.Load(p, &c); err != nil {
			t.Fatal(err)
		}
		c.Failure = ""
		one(t, &c, inBubble)
		hx.For("C12").Label("corpus-replayed", 1)
	}
	// unary: the whole (small) space, exhaustively
	st := hx.For("C12")
	n := 0
	for _, m := range []string{"/svc/M", "", "weird method"} {
		for _, nopts := range []int{0, 1, 2, 9, 40} {
			for rk := 0; rk < 3; rk++ {
				for ek := 0; ek < 3; ek++ {
					for _, dl := range []bool{false, true} {
						for nested := 0; nested < 4; nested++ {
							u := &UnaryCase{Method: m, NOpts: nopts, ReqKind: rk, ErrKind: ek, HasDl: dl, Nested: nested}
							if f := RunUnary(u); f != "" {
								u.Failure = f
								hx.WriteReplay("C12", u)
								t.Fatalf("unary: %s", f)
							}
							n++
						}
					}
				}
			}
		}
	}
	st.AddCases(n)
	st.Label("unary-cases-exhaustive", n)
	rapid.Check(t, func(rt *rapid.T) {
		c := genCase(rt)
		one(rt, c, func(f func()) { rapid.SyncTest(rt, func(*rapid.T) { f() }) })
	})
}
