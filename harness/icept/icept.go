// Package icept checks the interceptors (C12): the unary interceptor is transparent, and the lazy
// client stream creates the underlying stream exactly once on the first SendMsg, blocks early
// receivers until it exists (or the context ends), and then delegates everything unchanged.
// Sender and receiver goroutines are driven step by step inside a synctest bubble; after every
// step synctest.Wait() tells "returned" from "durably blocked" deterministically.
package icept

import (
	"context"
	"errors"
	"fmt"
	"io"
	"runtime"
	"runtime/debug"
	"testing/synctest"
	_ "unsafe" // nanotime

	"github.com/GoogleCloudPlatform/grpc-gcp-go/grpcgcp"
	"google.golang.org/grpc"
	"google.golang.org/grpc/metadata"
	"verifharness/hx"
)

// Step is one action of the program.
type Step struct {
	Who  int    `json:"who"`  // 0 sender goroutine, 1 receiver goroutine, 2 second receiver-side goroutine
	Call string `json:"call"` // send recv close header trailer context | cancel deliver (performed by the harness)
}

// Case is a generated stream program.
type Case struct {
	Property    string `json:"property,omitempty"`
	Create      []int  `json:"create"`              // outcome of the i-th stream creation: 0 ok, 1 error, 2 blocks until the context ends
	SendErr     int    `json:"sendErr"`             // the fake's n-th SendMsg fails (0 = never)
	SendBlock   int    `json:"sendBlock,omitempty"` // the fake's n-th SendMsg blocks until the underlying RecvMsg is called (flow control) or ctx ends
	RecvMode    int    `json:"recvMode"`            // fake RecvMsg: 0 returns nil at once, 1 blocks until a message is delivered or ctx ends, 2 returns io.EOF
	Deadline    int    `json:"deadlineMs"`          // >0: the call's context has a deadline instead of being cancelled explicitly
	CancelAtErr int    `json:"cancelAtErrCall"`     // >0: the context is cancelled right after the library's k-th ctx.Err() call (owns the check-then-wait window)
	Steps       []Step `json:"steps"`
	Failure     string `json:"failure,omitempty"`
}

type userKey struct{}

type fakeStream struct {
	ctx         context.Context
	c           *Case
	sends       []interface{}
	recvs       []interface{}
	closes      int
	headers     int
	trailers    int
	contexts    int
	deliver     chan struct{}
	hdr, trl    metadata.MD
	sendErr     error
	sendRets    map[interface{}]error // what the underlying SendMsg returned for each message
	sendBlocked bool
	recvSeen    chan struct{}
}

func (f *fakeStream) Header() (metadata.MD, error) { f.headers++; return f.hdr, nil }
func (f *fakeStream) Trailer() metadata.MD         { f.trailers++; return f.trl }
func (f *fakeStream) CloseSend() error             { f.closes++; return nil }
func (f *fakeStream) Context() context.Context     { f.contexts++; return f.ctx }
func (f *fakeStream) SendMsg(m interface{}) error {
	f.sends = append(f.sends, m)
	if f.sendRets == nil {
		f.sendRets = map[interface{}]error{}
	}
	if f.c.SendErr > 0 && len(f.sends) == f.c.SendErr {
		f.sendRets[m] = f.sendErr
		return f.sendErr
	}
	if f.c.SendBlock > 0 && len(f.sends) == f.c.SendBlock {
		// like a transport without send quota: only the peer's progress (here: the client reading) lets it go on
		f.sendBlocked = true
		defer func() { f.sendBlocked = false }()
		select {
		case <-f.recvSeen:
		case <-f.ctx.Done():
			f.sendRets[m] = f.ctx.Err()
			return f.ctx.Err()
		}
	}
	f.sendRets[m] = nil
	return nil
}
func (f *fakeStream) RecvMsg(m interface{}) error {
	f.recvs = append(f.recvs, m)
	select {
	case f.recvSeen <- struct{}{}:
	default:
	}
	switch f.c.RecvMode {
	case 1:
		select {
		case <-f.deliver:
			return nil
		case <-f.ctx.Done():
			return f.ctx.Err()
		}
	case 2:
		return io.EOF
	}
	return nil
}

type result struct {
	call   string
	arg    interface{}
	err    error
	val    interface{}
	panicv interface{}
	stack  string
	fail   string
}

type worker struct {
	cmd     chan string
	res     chan result
	busy    bool
	pending string
	arg     interface{}
	// state at issue time
	issuedCreated bool
}

type msg struct{ n int }

// Run executes one stream case inside a synctest bubble. It returns a failure text or "".
func Run(c *Case) (failure string, labels map[string]int, nontrivial bool) {
	labels = map[string]int{}
	defer func() {
		hx.InCall.Store(false)
		if r := recover(); r != nil {
			if s, ok := r.(failText); ok {
				failure = string(s)
				return
			}
			failure = fmt.Sprintf("harness panic: %v\n%s", r, debug.Stack())
		}
	}()
	fail := func(f string, a ...interface{}) { panic(failText(fmt.Sprintf(f, a...))) }

	// the caller's context carries a value of its own and, like every user of GCPMultiEndpoint, a MultiEndpoint name
	base := grpcgcp.NewMEContext(context.WithValue(context.Background(), userKey{}, "user-value"), "user-me")
	var ctx context.Context
	var cancel context.CancelFunc
	if c.Deadline > 0 {
		ctx, cancel = context.WithTimeout(base, msDur(c.Deadline))
	} else {
		ctx, cancel = context.WithCancel(base)
	}
	defer cancel()
	// libCtx is what the library sees; the harness itself only consults ctx (its own Err() calls must not count)
	libCtx := ctx
	if c.CancelAtErr > 0 {
		libCtx = &errCancelCtx{Context: ctx, k: c.CancelAtErr, cancel: cancel}
	}

	desc := &grpc.StreamDesc{StreamName: "S", ClientStreams: true, ServerStreams: true}
	opts := []grpc.CallOption{grpc.WaitForReady(true), grpc.MaxCallRecvMsgSize(7)}
	creations := 0
	lastCreateCtx = nil
	var fake *fakeStream
	var createErrs []error
	var creating bool
	// a failure seen inside the streamer is recorded and reported when the SendMsg that called it returns: a panic here
	// would unwind through the library while it holds the stream's lock and leave the other calls of the case stuck
	streamerFailure := ""
	streamer := func(sctx context.Context, d *grpc.StreamDesc, cc *grpc.ClientConn, method string, o ...grpc.CallOption) (grpc.ClientStream, error) {
		creations++
		fail := func(f string, a ...interface{}) {
			if streamerFailure == "" {
				streamerFailure = fmt.Sprintf(f, a...)
			}
		}
		if d != desc || cc != nil || method != "/svc/Method" || len(o) != len(opts) {
			fail("streamer called with different arguments: desc=%p method=%q opts=%d", d, method, len(o))
			return nil, errors.New("harness: " + streamerFailure)
		}
		if sctx.Value(userKey{}) != "user-value" {
			fail("the stream-creating context lost the caller's context values")
			return nil, errors.New("harness: " + streamerFailure)
		}
		if me, ok := grpcgcp.FromMEContext(sctx); !ok || me != "user-me" {
			fail("the stream-creating context lost the MultiEndpoint name the caller had put into the context (FromMEContext = %q, %v)", me, ok)
			return nil, errors.New("harness: " + streamerFailure)
		}
		req, _, ok := grpcgcp.VerifCtxMsgs(sctx)
		if !ok {
			fail("the stream-creating context does not carry the picker information")
			return nil, errors.New("harness: " + streamerFailure)
		}
		lastCreateReq = req
		lastCreateCtx = sctx
		out := 0
		if creations-1 < len(c.Create) {
			out = c.Create[creations-1]
		}
		switch out {
		case 1:
			e := fmt.Errorf("creation error #%d", creations)
			createErrs = append(createErrs, e)
			return nil, e
		case 2:
			creating = true
			<-sctx.Done()
			creating = false
			e := fmt.Errorf("creation aborted: %w", sctx.Err())
			createErrs = append(createErrs, e)
			return nil, e
		}
		fake = &fakeStream{ctx: sctx, c: c, deliver: make(chan struct{}, 64), hdr: metadata.Pairs("h", "1"), trl: metadata.Pairs("t", "2"), sendErr: errors.New("fake send error"),
			sendRets: map[interface{}]error{}, recvSeen: make(chan struct{})}
		return fake, nil
	}
	hx.CallDesc.Store("GCPStreamClientInterceptor")
	hx.InCall.Store(true)
	cs, err := grpcgcp.GCPStreamClientInterceptor(libCtx, desc, nil, "/svc/Method", streamer, opts...)
	if err != nil || cs == nil {
		fail("GCPStreamClientInterceptor returned %v, %v", cs, err)
	}
	if creations != 0 {
		fail("the underlying stream was created by the interceptor itself (before the first SendMsg)")
	}

	ws := []*worker{{}, {}, {}}
	nmsg := 0
	for _, w := range ws {
		w := w
		w.cmd, w.res = make(chan string), make(chan result, 1)
		go func() {
			for call := range w.cmd {
				r := result{call: call, arg: w.arg}
				func() {
					defer func() {
						if p := recover(); p != nil {
							if ft, ok := p.(failText); ok {
								r.fail = string(ft)
								return
							}
							r.panicv, r.stack = p, string(debug.Stack())
						}
					}()
					switch call {
					case "send":
						r.err = cs.SendMsg(w.arg)
					case "recv":
						r.err = cs.RecvMsg(w.arg)
					case "close":
						r.err = cs.CloseSend()
					case "header":
						r.val, r.err = cs.Header()
					case "trailer":
						r.val = cs.Trailer()
					case "context":
						r.val = cs.Context()
					}
				}()
				w.res <- r
			}
		}()
	}
	defer func() {
		cancel()
		for _, w := range ws {
			close(w.cmd)
		}
	}()

	var wantSends, wantRecvs []interface{}
	everFailedCreate := false
	earlyWaiter := false
	// handle a completed call
	complete := func(w *worker, r result) {
		w.busy = false
		if streamerFailure != "" {
			fail("%s", streamerFailure)
		}
		if r.fail != "" {
			fail("%s", r.fail)
		}
		if r.panicv != nil {
			fail("%s panicked (stream created=%v): %v\n%s", r.call, fake != nil, r.panicv, r.stack)
		}
		created := fake != nil
		switch r.call {
		case "send":
			if created {
				if len(fake.sends) == 0 || fake.sends[len(fake.sends)-1] != r.arg {
					fail("SendMsg(%p) returned but the underlying stream did not receive that message last (got %v)", r.arg, fake.sends)
				}
				wantErr, returned := fake.sendRets[r.arg]
				if !returned {
					fail("SendMsg(%p) returned %v while the underlying SendMsg has not returned", r.arg, r.err)
				}
				if r.err != wantErr {
					fail("SendMsg returned %v, the underlying stream returned %v", r.err, wantErr)
				}
			} else {
				if r.err == nil {
					fail("SendMsg returned nil although no underlying stream exists")
				}
				if len(createErrs) == 0 || !errors.Is(r.err, createErrs[len(createErrs)-1]) && r.err != createErrs[len(createErrs)-1] {
					fail("SendMsg returned %v, want the creation error %v", r.err, createErrs)
				}
				everFailedCreate = true
			}
		case "recv":
			if created && contains(fake.recvs, r.arg) {
				// delegated
				labels["recv-delegated"]++
			} else if w.issuedCreated {
				fail("RecvMsg issued after the underlying stream was created did not reach it (returned %v)", r.err)
			} else if r.err == nil {
				fail("RecvMsg(%p) returned nil without reaching the underlying stream", r.arg)
			} else if !w.issuedCreated && ctx.Err() == nil && !isOneOf(r.err, createErrs) {
				fail("RecvMsg issued before the stream existed returned %v although no creation failed and the context is alive", r.err)
			}
		case "close":
			if w.issuedCreated && created && r.err != nil {
				fail("CloseSend returned %v, the underlying stream returned nil", r.err)
			}
		case "header":
			if w.issuedCreated && created {
				if fake.headers == 0 {
					fail("Header issued after the underlying stream was created did not reach it (returned %v, %v)", r.val, r.err)
				}
				if md, _ := r.val.(metadata.MD); r.err != nil || md.Len() != 1 || md.Get("h")[0] != "1" {
					fail("Header returned %v,%v; the underlying stream returned %v", r.val, r.err, fake.hdr)
				}
			}
		case "trailer":
			if w.issuedCreated && created {
				if md, _ := r.val.(metadata.MD); md.Len() != 1 || md.Get("t")[0] != "2" {
					fail("Trailer returned %v; the underlying stream returned %v", r.val, fake.trl)
				}
			}
		case "context":
			if w.issuedCreated && created {
				if cx, _ := r.val.(context.Context); cx != fake.ctx {
					fail("Context returned %v; the underlying stream's context is %v", r.val, fake.ctx)
				}
			} else if cx, ok := r.val.(context.Context); ok && cx != nil && cx.Value(userKey{}) != "user-value" {
				fail("Context before stream creation lost the caller's values")
			} else if ok && cx != nil {
				if me, ok := grpcgcp.FromMEContext(cx); !ok || me != "user-me" {
					fail("Context before stream creation lost the MultiEndpoint name of the caller's context")
				}
			}
		}
	}
	settle := func(what string) {
		hx.CallDesc.Store(what)
		hx.Beat.Add(1)
		hx.InCall.Store(true)
		synctest.Wait()
		hx.InCall.Store(false)
		for _, w := range ws {
			if !w.busy {
				continue
			}
			select {
			case r := <-w.res:
				complete(w, r)
			default:
			}
		}
		if ctx.Err() != nil {
			for i, w := range ws {
				if w.busy && !w.issuedCreated {
					fail("the call's context has ended (%v) but goroutine %d is still blocked in %s issued before stream creation", ctx.Err(), i, w.pending)
				}
			}
		}
	}
	for si, st := range c.Steps {
		what := fmt.Sprintf("step %d %+v", si, st)
		switch st.Call {
		case "cancel":
			cancel()
			labels["cancel"]++
			for _, w := range ws {
				if w.busy && (w.pending == "recv" || w.pending == "header") && !w.issuedCreated {
					labels["cancel-while-receiver-waits-for-creation"]++
				}
			}
			settle(what)
			for i, w := range ws {
				if w.busy && !(fake != nil && c.RecvMode == 1 && false) {
					fail("after the context was cancelled goroutine %d is still blocked in %s (issued before creation=%v)", i, w.pending, !w.issuedCreated)
				}
			}
			continue
		case "deliver":
			if fake != nil {
				fake.deliver <- struct{}{}
				labels["deliver"]++
				settle(what)
			}
			continue
		}
		w := ws[((st.Who%3)+3)%3]
		if w.busy {
			labels["step-skipped-goroutine-blocked"]++
			continue
		}
		if creating {
			// the sender sits in a blocking stream creation holding the stream's mutex: anything else would
			// block on that mutex, which the bubble cannot tell from running
			labels["step-skipped-creation-in-progress"]++
			continue
		}
		call := st.Call
		who := ((st.Who % 3) + 3) % 3
		// gRPC's concurrency contract: one sender (SendMsg, CloseSend), one receiver (RecvMsg)
		if (call == "send" || call == "close") && who != 0 {
			continue
		}
		if call == "recv" && who != 1 {
			continue
		}
		created := fake != nil
		w.issuedCreated = created
		w.pending = call
		w.arg = nil
		before := creations
		switch call {
		case "send":
			nmsg++
			w.arg = &msg{nmsg}
			if !created && everFailedCreate {
				labels["send-after-failed-creation"]++
			}
		case "recv":
			nmsg++
			w.arg = &msg{nmsg}
			if !created {
				labels["recv-before-creation"]++
				earlyWaiter = true
			}
		default:
			if !created {
				labels[call+"-before-creation"]++
				earlyWaiter = true
			}
		}
		w.busy = true
		w.cmd <- call
		settle(what)
		// creation accounting
		if call == "send" {
			if created && creations != before {
				fail("a second underlying stream was created after a successful creation")
			}
			if !created {
				if creations != before+1 {
					fail("SendMsg without an underlying stream called the streamer %d times", creations-before)
				}
				if lastCreateReq != w.arg {
					fail("the creating context carries %v as request message, the first SendMsg sent %v", lastCreateReq, w.arg)
				}
				if fake != nil {
					labels["stream-created"]++
				}
			}
			if fake != nil && (!w.busy || contains(fake.sends, w.arg)) {
				wantSends = append(wantSends, w.arg)
			}
			if fake != nil && w.busy && fake.sendBlocked {
				labels["underlying-send-blocked-until-receive"]++
			}
		} else if creations != before {
			fail("%s created a stream", call)
		}
		if call == "recv" && created {
			wantRecvs = append(wantRecvs, w.arg)
		}
		if w.busy {
			labels[call+"-blocked"]++
			if call == "recv" && !created {
				labels["recv-blocked-before-creation"]++
			}
			if (call == "close" || call == "trailer" || call == "context") && !creating {
				fail("%s is blocked (stream created=%v)", call, created)
			}
			if call == "recv" && created && c.RecvMode != 1 {
				fail("RecvMsg is blocked although the underlying stream exists and answers at once")
			}
			if call == "send" && !creating && !(fake != nil && fake.sendBlocked) {
				fail("%s: SendMsg is blocked although stream creation does not block (creations=%d, ctx=%v)", what, creations, ctx.Err())
			}
		} else if call == "recv" && !created && ctx.Err() == nil && len(createErrs) == 0 {
			fail("RecvMsg returned before the stream existed (no creation error, context alive)")
		}
		// once the stream exists nobody may still wait for its creation
		if fake != nil {
			for i, ow := range ws {
				if ow.busy && !ow.issuedCreated && !(ow.pending == "recv" && c.RecvMode == 1 && contains(fake.recvs, ow.arg)) && ow.pending != "send" {
					fail("the stream exists but goroutine %d is still blocked in %s issued before creation", i, ow.pending)
				}
				if ow.busy && ow.pending == "recv" && !ow.issuedCreated && contains(fake.recvs, ow.arg) {
					labels["early-recv-delegated-after-creation"]++
				}
			}
		}
		if fake != nil {
			if len(fake.sends) != len(wantSends) {
				fail("the underlying stream saw %d sends, the sender issued %d", len(fake.sends), len(wantSends))
			}
			for i := range wantSends {
				if fake.sends[i] != wantSends[i] {
					fail("send #%d reached the underlying stream out of order or changed", i)
				}
			}
		}
	}
	if fake != nil && lastCreateCtx != nil {
		// the picker's completion callback reads the messages from the creating context when the stream ENDS: they must still
		// be this stream's after other calls went through the interceptors meanwhile
		first := lastCreateReq
		other, otherReply := &struct{ K string }{"other-call"}, &struct{ K string }{}
		grpcgcp.GCPUnaryClientInterceptor(context.Background(), "/svc/Other", other, otherReply, nil, func(context.Context, string, interface{}, interface{}, *grpc.ClientConn, ...grpc.CallOption) error {
			return nil
		})
		if req, _, ok := grpcgcp.VerifCtxMsgs(lastCreateCtx); !ok || req != first {
			fail("after other calls went through the interceptors, the context this stream was created with carries %v as its first message, it was %v", req, first)
		}
		labels["creating-context-checked-after-other-calls"]++
	}
	nontrivial = earlyWaiter || labels["cancel-while-receiver-waits-for-creation"] > 0 || labels["send-after-failed-creation"] > 0
	return "", labels, nontrivial
}

var lastCreateReq interface{}
var lastCreateCtx context.Context

// nanotime is the real monotonic clock (time.Now is virtual inside a bubble).
//
//go:linkname nanotime runtime.nanotime
func nanotime() int64

// errCancelCtx cancels itself right after its k-th Err() call: a deterministic way to place the
// end of the context inside the library's check-then-wait windows.
type errCancelCtx struct {
	context.Context
	n, k   int
	cancel context.CancelFunc
}

func (c *errCancelCtx) Err() error {
	e := c.Context.Err()
	c.n++
	if c.n == c.k {
		c.cancel()
		// let whoever watches the context run now, while the caller is still between its check and
		// whatever it does next (it may hold a lock): this is the window the harness wants to own
		for i := 0; i < 200; i++ {
			runtime.Gosched()
		}
		for t0 := nanotime(); nanotime()-t0 < 50_000; {
		}
	}
	return e
}

type failText string

func contains(l []interface{}, x interface{}) bool {
	for _, y := range l {
		if y == x {
			return true
		}
	}
	return false
}

func isOneOf(e error, l []error) bool {
	for _, x := range l {
		if e == x || errors.Is(e, x) {
			return true
		}
	}
	return false
}
