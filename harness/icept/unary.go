package icept

import (
	"context"
	"errors"
	"fmt"
	"time"

	"github.com/GoogleCloudPlatform/grpc-gcp-go/grpcgcp"
	"google.golang.org/grpc"
)

func msDur(ms int) time.Duration { return time.Duration(ms) * time.Millisecond }

// UnaryCase is a generated call through the unary interceptor.
type UnaryCase struct {
	Method  string `json:"method"`
	NOpts   int    `json:"nOpts"`
	ReqKind int    `json:"reqKind"` // 0 pointer, 1 nil, 2 string
	ErrKind int    `json:"errKind"` // 0 nil, 1 plain error, 2 context error
	HasDl   bool   `json:"hasDeadline"`
	Nested  int    `json:"nested"` // 0 fresh context; 1 context received by the invoker of another intercepted unary call; 2 Context() of an intercepted stream; 3 while this call is in its invoker, a side call is made on a context derived from the invoker's context
	Failure string `json:"failure,omitempty"`
}

// RunUnary checks transparency of the unary interceptor.
func RunUnary(c *UnaryCase) string {
	ctx := grpcgcp.NewMEContext(context.WithValue(context.Background(), userKey{}, "user-value"), "user-me")
	var cancel context.CancelFunc = func() {}
	if c.HasDl {
		ctx, cancel = context.WithTimeout(ctx, time.Hour)
	}
	defer cancel()
	switch c.Nested {
	case 1:
		grpcgcp.GCPUnaryClientInterceptor(ctx, "/other", &msg{100}, &msg{101}, nil, func(ictx context.Context, _ string, _, _ interface{}, _ *grpc.ClientConn, _ ...grpc.CallOption) error {
			ctx = ictx
			return nil
		})
	case 2:
		fs := &fakeStream{ctx: nil, c: &Case{}}
		st, _ := grpcgcp.GCPStreamClientInterceptor(ctx, &grpc.StreamDesc{}, nil, "/other", func(sctx context.Context, _ *grpc.StreamDesc, _ *grpc.ClientConn, _ string, _ ...grpc.CallOption) (grpc.ClientStream, error) {
			fs.ctx = sctx
			return fs, nil
		})
		st.SendMsg(&msg{200})
		ctx = st.Context()
	}
	var req interface{}
	switch c.ReqKind {
	case 0:
		req = &msg{1}
	case 2:
		req = "string request"
	}
	reply := &msg{2}
	var opts []grpc.CallOption
	for i := 0; i < c.NOpts; i++ {
		opts = append(opts, grpc.MaxCallRecvMsgSize(i))
	}
	var want error
	switch c.ErrKind {
	case 1:
		want = errors.New("invoker error")
	case 2:
		want = context.Canceled
	}
	calls := 0
	var fail string
	inv := func(ictx context.Context, method string, r, rep interface{}, cc *grpc.ClientConn, o ...grpc.CallOption) error {
		calls++
		if c.Nested == 3 {
			// e.g. a credentials plugin or a tracing hook that issues its own RPC with the context it was handed: the
			// picker information of THIS call must be what it was once the side call is over
			sreq, srep := &msg{300}, &msg{301}
			type sideKey struct{}
			serr := grpcgcp.GCPUnaryClientInterceptor(context.WithValue(ictx, sideKey{}, 1), "/side", sreq, srep, nil, func(sctx context.Context, _ string, _, _ interface{}, _ *grpc.ClientConn, _ ...grpc.CallOption) error {
				if gr, grep, ok := grpcgcp.VerifCtxMsgs(sctx); !ok || gr != interface{}(sreq) || grep != interface{}(srep) {
					fail = fmt.Sprintf("side call: the picker sees req=%v reply=%v, want the side call's own objects", gr, grep)
				}
				return nil
			})
			if serr != nil {
				fail = fmt.Sprintf("side call returned %v", serr)
			}
		}
		if method != c.Method || r != req || rep != interface{}(reply) || cc != nil {
			fail = fmt.Sprintf("invoker got method=%q req=%v reply=%v cc=%v", method, r, rep, cc)
		}
		if len(o) != len(opts) {
			fail = fmt.Sprintf("invoker got %d options, want %d", len(o), len(opts))
		} else {
			for i := range o {
				if o[i] != opts[i] {
					fail = fmt.Sprintf("option %d differs", i)
				}
			}
		}
		if ictx.Value(userKey{}) != "user-value" {
			fail = "caller's context value lost"
		}
		if me, ok := grpcgcp.FromMEContext(ictx); !ok || me != "user-me" {
			fail = fmt.Sprintf("the MultiEndpoint name the caller had put into the context is lost (FromMEContext = %q, %v)", me, ok)
		}
		if c.Nested != 0 && fail == "" {
			gr, _, _ := grpcgcp.VerifCtxMsgs(ictx)
			if gr != req {
				fail = fmt.Sprintf("context derived from another intercepted call: the picker sees request %v of that call, not this call's %v", gr, req)
			}
		}
		d0, ok0 := ctx.Deadline()
		d1, ok1 := ictx.Deadline()
		if ok0 != ok1 || !d0.Equal(d1) {
			fail = "deadline of the caller's context changed"
		}
		gr, grep, ok := grpcgcp.VerifCtxMsgs(ictx)
		if !ok || gr != req || grep != interface{}(reply) {
			fail = fmt.Sprintf("picker information in the context: req=%v reply=%v ok=%v, want the call's request and reply objects", gr, grep, ok)
		}
		return want
	}
	var got error
	var p interface{}
	func() {
		defer func() { p = recover() }()
		got = grpcgcp.GCPUnaryClientInterceptor(ctx, c.Method, req, reply, nil, inv, opts...)
	}()
	switch {
	case p != nil:
		return fmt.Sprintf("unary interceptor panicked: %v", p)
	case fail != "":
		return fail
	case calls != 1:
		return fmt.Sprintf("invoker called %d times", calls)
	case got != want:
		return fmt.Sprintf("interceptor returned %v, invoker returned %v", got, want)
	}
	return ""
}
